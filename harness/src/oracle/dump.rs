//! The *observable dump* of an `EmmyLuaAnalysis`, keyed by path and never by file id.
//!
//! Sections (each a sorted list of lines):
//!   desc     hover-like documentation (property index) of type / global / member owners
//!   type     type declarations: kind, per-location flags, locations, supers, alias origin
//!   member   members of every type declaration (index level)
//!   minfo    resolved member infos of every type declaration (semantic level, includes inherited members)
//!   global   global declarations: name, location, bound type
//!   module   module map (file -> module name, workspace, visibility, meta, export type) and
//!            `find_module` answers for a fixed probe list
//!   operator operators of type declarations
//!   ref      reference index answers (decl references per file, global / index / type / string references)
//!   sem      per-name-token semantic info of every non-std file: rendered type + declaration location,
//!            and `find_decl` (go-to-definition target)
//!   diag     sorted diagnostics of every non-std file
//!   file     files known to the analysis (has tree / has model)
//!
//! Everything that is a file id inside the analysis is rendered as the file's path relative to the
//! workspace base; ids never appear.  A file id listed in `dead` (a removed file) renders as
//! `<DEAD:path>` wherever some result still points at it (C10's oracle looks for that marker).
//! Rendered types are normalised by sorting union members / record fields (`norm_type`), so the dump is
//! a deterministic function of the analysis state, and two states that differ only in the listing order
//! of members inside rendered types have equal dumps.
use emmylua_code_analysis::{
    humanize_type, DbIndex, EmmyLuaAnalysis, FileId, LuaMemberKey, LuaMemberOwner, LuaOperatorMetaMethod, LuaOperatorOwner, LuaSemanticDeclId, LuaType, LuaTypeDeclId,
    RenderLevel, SemanticDeclLevel,
};
use emmylua_parser::{LuaAstNode, LuaTokenKind};
use std::collections::{BTreeMap, BTreeSet};
use std::path::{Path, PathBuf};
use tokio_util::sync::CancellationToken;

pub const SECTIONS: &[&str] = &["file", "desc", "type", "member", "global", "module", "operator", "minfo", "ref", "sem", "diag"];
/// sections holding index-level facts (root causes); the remaining ones are computed from them
pub const ROOT_SECTIONS: &[&str] = &["file", "desc", "type", "member", "global", "module", "operator"];

#[derive(Clone, Debug, Default, PartialEq, Eq)]
pub struct Dump {
    pub sections: BTreeMap<String, Vec<String>>,
}

#[derive(Clone, Debug)]
pub struct Diff {
    pub section: String,
    /// lines only in the left / only in the right dump (multiset difference, sorted)
    pub only_left: Vec<String>,
    pub only_right: Vec<String>,
}

impl Dump {
    fn push(&mut self, section: &str, line: String) {
        let line = if line.contains('\n') || line.contains('\r') { line.replace('\n', "\\n").replace('\r', "\\r") } else { line };
        self.sections.entry(section.to_string()).or_default().push(line);
    }
    fn finish(&mut self) {
        for s in SECTIONS {
            self.sections.entry(s.to_string()).or_default();
        }
        for v in self.sections.values_mut() {
            v.sort();
        }
    }
    pub fn lines(&self) -> usize {
        self.sections.values().map(|v| v.len()).sum()
    }
    pub fn to_text(&self) -> String {
        let mut s = String::new();
        for sec in SECTIONS {
            if let Some(v) = self.sections.get(*sec) {
                for l in v {
                    s.push_str(sec);
                    s.push('\t');
                    s.push_str(l);
                    s.push('\n');
                }
            }
        }
        s
    }
    /// all lines that contain `needle`, as (section, line)
    pub fn grep(&self, needle: &str) -> Vec<(String, String)> {
        let mut out = vec![];
        for sec in SECTIONS {
            if let Some(v) = self.sections.get(*sec) {
                for l in v {
                    if l.contains(needle) {
                        out.push((sec.to_string(), l.clone()));
                    }
                }
            }
        }
        out
    }
    /// differences per section, in the fixed section order (root-cause sections first)
    pub fn diff(&self, other: &Dump) -> Vec<Diff> {
        let mut out = vec![];
        let empty = vec![];
        for sec in SECTIONS {
            let a = self.sections.get(*sec).unwrap_or(&empty);
            let b = other.sections.get(*sec).unwrap_or(&empty);
            if a == b {
                continue;
            }
            let (mut i, mut j) = (0, 0);
            let (mut l, mut r) = (vec![], vec![]);
            while i < a.len() || j < b.len() {
                if i < a.len() && j < b.len() && a[i] == b[j] {
                    i += 1;
                    j += 1;
                } else if j >= b.len() || (i < a.len() && a[i] < b[j]) {
                    l.push(a[i].clone());
                    i += 1;
                } else {
                    r.push(b[j].clone());
                    j += 1;
                }
            }
            out.push(Diff { section: sec.to_string(), only_left: l, only_right: r });
        }
        out
    }
}

/// the part of a dump line that identifies *what* the line talks about (owner / position), by section
fn subject(section: &str, line: &str) -> String {
    match section {
        // "<file>@a..b name : type ==> decl [def=..]"
        "sem" => line.split(" : ").next().unwrap_or(line).to_string(),
        // "<owner> desc=..."
        "desc" => line.split(" desc=").next().unwrap_or(line).to_string(),
        // "<name> <kind> locs=[...]"
        "type" => line.split(' ').next().unwrap_or(line).to_string(),
        // "<name> at <loc> : type"
        "global" => line.split(" : ").next().unwrap_or(line).to_string(),
        "member" | "minfo" => line.split(" : ").next().unwrap_or(line).to_string(),
        "module" => line.split(" = ").next().unwrap_or(line).to_string(),
        // "<file> l:c-l:c code severity message"
        "diag" => line.split(' ').take(3).collect::<Vec<_>>().join(" "),
        "operator" => line.split(" operand=").next().unwrap_or(line).to_string(),
        "ref" => line.split(" <- ").next().unwrap_or(line).to_string(),
        _ => line.to_string(),
    }
}

fn owner_kind(line: &str) -> &str {
    line.split(':').next().unwrap_or("")
}

/// true when the right side only *adds* lines to this section, apart from lines of the same subject whose
/// rendered type changed (global / member / minfo lines render the members of a class inside the type)
pub fn additions_or_type_only(d: &Diff) -> bool {
    let sec = d.section.as_str();
    let mut added: Vec<&String> = d.only_right.iter().collect();
    for l in &d.only_left {
        let s = subject(sec, l);
        match added.iter().position(|r| subject(sec, r) == s) {
            Some(i) if matches!(sec, "global" | "member" | "minfo" | "operator") => {
                added.remove(i);
            }
            _ => return false,
        }
    }
    true
}

/// Mechanical root-cause key of the first differing section (sections are ordered root causes first).
/// `left` = reference state, `right` = state under judgement.
pub fn classify(diffs: &[Diff]) -> String {
    classify_with(diffs, None)
}

/// `reference`: the reference dump, used to recognise that two declarations are the global declarations
/// of one name (the resolution then only switched between declarations of the same global)
pub fn classify_with(diffs: &[Diff], reference: Option<&Dump>) -> String {
    let Some(d) = diffs.first() else { return "no-diff".into() };
    let sec = d.section.as_str();
    // pair lines about the same subject
    let mut changed: Vec<(&String, &String)> = vec![];
    let mut removed: Vec<&String> = vec![];
    let mut added: Vec<&String> = d.only_right.iter().collect();
    for l in &d.only_left {
        let s = subject(sec, l);
        if let Some(i) = added.iter().position(|r| subject(sec, r) == s) {
            changed.push((l, added.remove(i)));
        } else {
            removed.push(l);
        }
    }
    // only additions in a section that lists resolved facts: the re-analysis resolved more than before
    if changed.is_empty() && removed.is_empty() && matches!(sec, "member" | "minfo" | "ref" | "operator" | "global") {
        return "resubmit-resolves-more".into();
    }
    // the same declaration (same location) now belongs to another owner
    if matches!(sec, "member" | "operator") && changed.is_empty() && !removed.is_empty() && {
        let loc = |l: &str| l.split(" at ").nth(1).unwrap_or("").split(' ').next().unwrap_or("").to_string();
        removed.iter().all(|l| added.iter().any(|r| loc(r) == loc(l) && !loc(l).is_empty()))
    } {
        return "owner-rehomed".into();
    }
    match sec {
        "desc" => {
            // lost, re-added or replaced: the documentation of an owner changed
            let l = changed.first().map(|x| x.0).or(removed.first().copied()).or(added.first().copied());
            format!("desc-changed:{}", l.map(|l| owner_kind(l)).unwrap_or(""))
        }
        "type" => {
            if let Some((l, r)) = changed.first() {
                let field = |s: &str, name: &str| -> String {
                    match s.find(name) {
                        Some(i) => {
                            let rest = &s[i + name.len()..];
                            // fields are written in a fixed order; the next one starts with " <word>="
                            let mut end = rest.len();
                            for k in [" origin=", " enum_key=", " supers=", " generics="] {
                                if let Some(j) = rest.find(k) {
                                    end = end.min(j);
                                }
                            }
                            rest[..end].to_string()
                        }
                        None => String::new(),
                    }
                };
                for (name, key) in [("locs=", "locations"), (" origin=", "alias-origin"), (" enum_key=", "enum"), (" supers=", "supers"), (" generics=", "generics")] {
                    if field(l, name) != field(r, name) {
                        if key == "supers" {
                            // the same simple names, resolved into another namespace
                            let simple = |s: String| -> Vec<String> {
                                let mut v: Vec<String> = s.trim_matches(|c| c == '[' || c == ']').split(' ').map(|n| n.rsplit('.').next().unwrap_or("").to_string()).collect();
                                v.sort();
                                v
                            };
                            if simple(field(l, name)) == simple(field(r, name)) {
                                return "type:supers-namespace-changed".into();
                            }
                        }
                        return format!("type:{key}-changed");
                    }
                }
                return "type:kind-changed".into();
            }
            if !removed.is_empty() {
                return "type:removed".into();
            }
            "type:added".into()
        }
        "sem" => {
            if let Some((l, r)) = changed.first() {
                let part = |s: &str, i: usize| s.splitn(2, " : ").nth(1).unwrap_or("").rsplitn(2, " ==> ").nth(1 - i).unwrap_or("").to_string();
                let (lt, rt) = (part(l, 0), part(r, 0));
                let (ld, rd) = (part(l, 1), part(r, 1));
                let strip_doc = |s: &str| s.split(" doc=").next().unwrap_or("").to_string();
                if strip_doc(&ld) != strip_doc(&rd) {
                    // a token that resolved to nothing now resolves (or the other way round)
                    let none = |s: &str| s.split(' ').next().unwrap_or("") == "-";
                    if none(&ld) && !none(&rd) {
                        return "resubmit-resolves-more".into();
                    }
                    if !none(&ld) && none(&rd) {
                        return "resubmit-resolves-less".into();
                    }
                    let k = |s: &str| s.split(':').next().unwrap_or("").to_string();
                    // "<file>@a..b NAME : ..." -> NAME; are both targets global declarations of NAME?
                    let name = l.split(" : ").next().unwrap_or("").rsplit(' ').next().unwrap_or("").to_string();
                    if let Some(globals) = reference.and_then(|r| r.sections.get("global")) {
                        let is_global_decl = |d: &str| -> bool {
                            // d = "decl:<file>@<pos>[ def=...]"; global lines are "<name> at <file>@<pos>..<end> : type"
                            let d = d.split(' ').next().unwrap_or("");
                            match d.strip_prefix("decl:") {
                                Some(loc) => globals.iter().any(|g| g.starts_with(&format!("{name} at {loc}.."))),
                                None => false,
                            }
                        };
                        if is_global_decl(&ld) && is_global_decl(&rd) {
                            return "sem:global-decl-switched".into();
                        }
                    }
                    if k(&ld) == "member" && k(&rd) == "member" {
                        return "member-definition-order".into();
                    }
                    return format!("sem:decl-changed:{}>{}", k(&ld), k(&rd));
                }
                if lt != rt {
                    // a name with several global declarations: its type is taken from the declaration list,
                    // whose order is the analysis order
                    let name = l.split(" : ").next().unwrap_or("").rsplit(' ').next().unwrap_or("").to_string();
                    if let Some(globals) = reference.and_then(|r| r.sections.get("global")) {
                        if globals.iter().filter(|g| g.starts_with(&format!("{name} at "))).count() >= 2 {
                            return "sem:multi-decl-global-type-changed".into();
                        }
                    }
                    return "inferred-type-drift".into();
                }
                return "sem:doc-changed".into();
            }
            if !removed.is_empty() {
                return "sem:token-removed".into();
            }
            "sem:token-added".into()
        }
        "diag" => {
            let code = |l: &str| l.split(' ').nth(2).unwrap_or("?").to_string();
            if let Some((l, r)) = changed.first() {
                // same file, range and code; if the first sentence of the message agrees, only the
                // explanation of a type mismatch (which member failed first) differs
                let first_sentence = |m: &str| m.find(". ").map(|i| m[..i].to_string());
                if let (Some(a), Some(b)) = (first_sentence(l), first_sentence(r)) {
                    if a == b {
                        return "diag:mismatch-reason-changed".into();
                    }
                }
                return format!("diag:{}:changed", code(l));
            }
            if let Some(l) = removed.first() {
                // the same code appearing elsewhere = moved
                let c = code(l);
                if added.iter().any(|a| code(a) == c) {
                    return format!("diag:{c}:moved");
                }
                return format!("diag:{c}:removed");
            }
            format!("diag:{}:added", added.first().map(|l| code(l)).unwrap_or_default())
        }
        "ref" => {
            let kind = |l: &str| l.split(' ').next().unwrap_or("?").to_string();
            if let Some((l, _)) = changed.first() {
                return format!("ref:{}:changed", kind(l));
            }
            if let Some(l) = removed.first() {
                return format!("ref:{}:removed", kind(l));
            }
            format!("ref:{}:added", added.first().map(|l| kind(l)).unwrap_or_default())
        }
        "module" => {
            let fm = |l: &str| if l.starts_with("find_module(") { "find-module" } else { "module-info" };
            if let Some((l, r)) = changed.first() {
                if fm(l) == "module-info" {
                    const KEYS: &[&str] = &[" name=", " ws=", " vis=", " meta=", " export=", " semantic=", " version="];
                    let get = |s: &str, k: usize| -> String {
                        let Some(i) = s.find(KEYS[k]) else { return String::new() };
                        let rest = &s[i + KEYS[k].len()..];
                        let end = KEYS.get(k + 1).and_then(|n| rest.find(n)).unwrap_or(rest.len());
                        rest[..end].to_string()
                    };
                    for (k, key) in KEYS.iter().enumerate() {
                        if get(l, k) != get(r, k) {
                            let key = key.trim();
                            if key == "export=" {
                                return "inferred-type-drift".into();
                            }
                            if key == "vis=" || key == "semantic=" {
                                // both are written together by the module-return analysis
                                return "module-info:semantic-changed".into();
                            }
                            return format!("module-info:{}changed", key.replace('=', "-"));
                        }
                    }
                }
                return format!("{}:changed", fm(l));
            }
            if let Some(l) = removed.first() {
                return format!("{}:removed", fm(l));
            }
            format!("{}:added", added.first().map(|l| fm(l)).unwrap_or(""))
        }
        "member" if changed.is_empty() && !removed.is_empty() && !added.is_empty() && {
            // the same Owner.key defined at another location: the definition that owns the key switched files
            let name = |l: &str| l.split(" at ").next().unwrap_or("").to_string();
            removed.iter().all(|l| added.iter().any(|r| name(r) == name(l)))
        } =>
        {
            "member-definition-order".into()
        }
        "global" | "member" | "minfo" | "operator" if !changed.is_empty() => {
            // same owner / location / feature (the subject); only the inferred type after " : " differs
            let (l, r) = changed[0];
            let tail = |s: &str| s.splitn(2, " : ").nth(1).unwrap_or("").to_string();
            let owner = |s: &str| tail(s).split(" owner=").nth(1).unwrap_or("").to_string();
            if sec == "minfo" && owner(l) != owner(r) {
                return "minfo:owner-changed".into();
            }
            "inferred-type-drift".into()
        }
        _ => {
            if !changed.is_empty() {
                format!("{sec}:changed")
            } else if !removed.is_empty() {
                format!("{sec}:removed")
            } else {
                format!("{sec}:added")
            }
        }
    }
}

pub fn render_diffs(diffs: &[Diff], max_lines: usize) -> String {
    let mut s = String::new();
    let mut n = 0;
    for d in diffs {
        for l in &d.only_left {
            if n < max_lines {
                s.push_str(&format!("[{}] - {}\n", d.section, l));
            }
            n += 1;
        }
        for l in &d.only_right {
            if n < max_lines {
                s.push_str(&format!("[{}] + {}\n", d.section, l));
            }
            n += 1;
        }
    }
    if n > max_lines {
        s.push_str(&format!("… {} more differing lines\n", n - max_lines));
    }
    s
}

// ─── rendered-type normalisation ─────────────────────────────────────────────────────────────

#[derive(Debug)]
enum Node {
    Text(String),
    Group(char, Vec<Node>, Option<char>),
}

fn parse_nodes(chars: &[char], pos: &mut usize, close: Option<char>) -> Vec<Node> {
    let mut out = vec![];
    let mut cur = String::new();
    while *pos < chars.len() {
        let c = chars[*pos];
        if Some(c) == close {
            break;
        }
        match c {
            '"' | '\'' | '`' => {
                // atomic quoted text
                cur.push(c);
                *pos += 1;
                while *pos < chars.len() {
                    let d = chars[*pos];
                    cur.push(d);
                    *pos += 1;
                    if d == '\\' && *pos < chars.len() {
                        cur.push(chars[*pos]);
                        *pos += 1;
                    } else if d == c {
                        break;
                    }
                }
                continue;
            }
            '(' | '[' | '{' | '<' => {
                if !cur.is_empty() {
                    out.push(Node::Text(std::mem::take(&mut cur)));
                }
                let cl = match c {
                    '(' => ')',
                    '[' => ']',
                    '{' => '}',
                    _ => '>',
                };
                *pos += 1;
                let inner = parse_nodes(chars, pos, Some(cl));
                let closed = if *pos < chars.len() && chars[*pos] == cl {
                    *pos += 1;
                    Some(cl)
                } else {
                    None
                };
                out.push(Node::Group(c, inner, closed));
                continue;
            }
            _ => cur.push(c),
        }
        *pos += 1;
    }
    if !cur.is_empty() {
        out.push(Node::Text(cur));
    }
    out
}

/// split a node list at top-level occurrences of `sep` inside Text nodes
fn split_nodes(nodes: Vec<Node>, sep: char) -> Vec<Vec<Node>> {
    let mut parts: Vec<Vec<Node>> = vec![vec![]];
    for n in nodes {
        match n {
            Node::Text(t) => {
                let mut first = true;
                for piece in t.split(sep) {
                    if !first {
                        parts.push(vec![]);
                    }
                    first = false;
                    if !piece.is_empty() {
                        parts.last_mut().unwrap().push(Node::Text(piece.to_string()));
                    }
                }
            }
            g => parts.last_mut().unwrap().push(g),
        }
    }
    parts
}

fn canon(nodes: Vec<Node>, sort_commas: bool) -> String {
    // commas / newlines separate items; ':' separates key and type; '|' separates union members
    let mut items: Vec<String> = vec![];
    let mut comma_parts = vec![];
    for p in split_nodes(nodes, ',') {
        for q in split_nodes(p, '\n') {
            comma_parts.push(q);
        }
    }
    for item in comma_parts {
        let mut colon_out: Vec<String> = vec![];
        for part in split_nodes(item, ':') {
            let mut alts: Vec<String> = vec![];
            for alt in split_nodes(part, '|') {
                let mut s = String::new();
                for n in alt {
                    match n {
                        Node::Text(t) => s.push_str(&t),
                        Node::Group(o, inner, c) => {
                            s.push(o);
                            s.push_str(&canon(inner, o == '{'));
                            if let Some(c) = c {
                                s.push(c);
                            }
                        }
                    }
                }
                let s = s.split_whitespace().collect::<Vec<_>>().join(" ");
                if !s.is_empty() {
                    alts.push(s);
                }
            }
            alts.sort();
            colon_out.push(alts.join("|"));
        }
        let s = colon_out.join(":");
        if !s.is_empty() {
            items.push(s);
        }
    }
    if sort_commas {
        items.sort();
    }
    items.join(",")
}

/// canonical form of a rendered type: union members and record fields sorted, whitespace collapsed
pub fn norm_type(s: &str) -> String {
    let chars: Vec<char> = s.chars().collect();
    let mut pos = 0;
    let mut nodes = vec![];
    // a stray closing bracket must not stop the scan
    while pos < chars.len() {
        nodes.extend(parse_nodes(&chars, &mut pos, None));
        if pos < chars.len() {
            nodes.push(Node::Text(chars[pos].to_string()));
            pos += 1;
        }
    }
    canon(nodes, false)
}

/// messages quote types between backticks: normalise those segments only
pub fn norm_message(s: &str) -> String {
    let mut out = String::new();
    let mut rest = s;
    loop {
        match rest.find('`') {
            None => {
                out.push_str(rest);
                break;
            }
            Some(a) => {
                out.push_str(&rest[..a + 1]);
                let after = &rest[a + 1..];
                match after.find('`') {
                    None => {
                        out.push_str(after);
                        break;
                    }
                    Some(b) => {
                        out.push_str(&norm_type(&after[..b]));
                        out.push('`');
                        rest = &after[b + 1..];
                    }
                }
            }
        }
    }
    out
}

// ─── the dump ────────────────────────────────────────────────────────────────────────────────

pub struct DumpOpts<'a> {
    /// workspace base directory (paths are rendered relative to it)
    pub base: &'a Path,
    /// file ids of removed files: any result pointing into one renders as `<DEAD:…>`
    pub dead: &'a [(FileId, String)],
    /// extra module names to probe with `find_module`
    pub module_probes: &'a [&'a str],
    /// extra global / field names to probe in the reference index
    pub name_probes: &'a [&'a str],
    /// keep only the first sentence of diagnostic messages: the explanation after it names the first
    /// mismatching member in hash-map order (C11-F2), which is not reproducible even for one state
    pub strip_mismatch_reason: bool,
}

struct Ctx<'a> {
    db: &'a DbIndex,
    opts: &'a DumpOpts<'a>,
}

impl Ctx<'_> {
    fn path_of(&self, f: FileId) -> Option<PathBuf> {
        self.db.get_vfs().get_file_path(&f).cloned()
    }
    fn is_std(&self, f: FileId) -> bool {
        self.db.get_module_index().is_std(&f)
    }
    fn file(&self, f: FileId) -> String {
        if let Some((_, name)) = self.opts.dead.iter().find(|d| d.0 == f) {
            return format!("<DEAD:{name}>");
        }
        match self.path_of(f) {
            Some(p) => match p.strip_prefix(self.opts.base) {
                Ok(rel) => rel.to_string_lossy().replace('\\', "/"),
                Err(_) => {
                    if self.is_std(f) {
                        format!("<std>/{}", p.file_name().map(|n| n.to_string_lossy().to_string()).unwrap_or_default())
                    } else {
                        format!("<abs>{}", p.to_string_lossy())
                    }
                }
            },
            None => "<NOPATH>".to_string(),
        }
    }
    fn loc(&self, f: FileId, range: rowan::TextRange) -> String {
        format!("{}@{}..{}", self.file(f), u32::from(range.start()), u32::from(range.end()))
    }
    fn pos(&self, f: FileId, p: rowan::TextSize) -> String {
        format!("{}@{}", self.file(f), u32::from(p))
    }
    fn ty(&self, t: &LuaType) -> String {
        norm_type(&humanize_type(self.db, t, RenderLevel::Detailed))
    }
    /// names only (no member listing): for super types, where the members of the super class are not
    /// part of the fact being dumped
    fn ty_brief(&self, t: &LuaType) -> String {
        norm_type(&humanize_type(self.db, t, RenderLevel::Simple))
    }
    fn type_id(&self, id: &LuaTypeDeclId) -> String {
        use emmylua_code_analysis::LuaTypeIdentifier::*;
        match id.get_id() {
            Global(n) => n.to_string(),
            Internal(ws, n) => format!("{n}[internal:{ws}]"),
            File(f, n) => format!("{n}[file:{}]", self.file(*f)),
        }
    }
    fn decl_id(&self, d: &LuaSemanticDeclId) -> String {
        match d {
            LuaSemanticDeclId::TypeDecl(id) => format!("type:{}", self.type_id(id)),
            LuaSemanticDeclId::Member(m) => format!("member:{}", self.loc(m.file_id, m.get_syntax_id().get_range())),
            LuaSemanticDeclId::LuaDecl(d) => format!("decl:{}", self.pos(d.file_id, d.position)),
            LuaSemanticDeclId::Signature(s) => format!("sig:{}", self.pos(s.get_file_id(), s.get_position())),
        }
    }
    fn key(&self, k: &LuaMemberKey) -> String {
        match k {
            LuaMemberKey::None => "<none>".into(),
            LuaMemberKey::Integer(i) => format!("[{i}]"),
            LuaMemberKey::Name(n) => n.to_string(),
            LuaMemberKey::TypeKey(t) => format!("[{}]", self.ty(t)),
        }
    }
    fn property(&self, owner: &LuaSemanticDeclId) -> Option<String> {
        let p = self.db.get_property_index().get_property(owner)?;
        let mut s = String::new();
        // an entry with an empty description and no other attribute is indistinguishable from no entry
        let desc = p.description().map(|d| d.as_str()).filter(|d| !d.is_empty());
        s.push_str(&format!("desc={:?}", desc));
        if p.visibility != emmylua_parser::VisibilityKind::Public {
            s.push_str(&format!(" vis={:?}", p.visibility));
        }
        if let Some(d) = p.deprecated() {
            s.push_str(&format!(" deprecated={:?}", d));
        }
        if let Some(src) = p.source() {
            s.push_str(&format!(" source={:?}", src));
        }
        if let Some(v) = p.version_conds() {
            s.push_str(&format!(" version={:?}", v));
        }
        if let Some(t) = p.tag_content() {
            s.push_str(&format!(" tags={:?}", t.get_all_tags()));
        }
        if s == "desc=None" {
            return None;
        }
        Some(s)
    }
}

/// every live file id of the analysis (ascending)
pub fn live_files(analysis: &EmmyLuaAnalysis) -> Vec<FileId> {
    analysis.compilation.get_db().get_vfs().get_all_file_ids()
}

pub fn dump(analysis: &EmmyLuaAnalysis, opts: &DumpOpts) -> Dump {
    let db = analysis.compilation.get_db();
    let cx = Ctx { db, opts };
    let mut d = Dump::default();

    let mut files: Vec<FileId> = live_files(analysis).into_iter().filter(|f| !cx.is_std(*f)).collect();
    files.sort_by_key(|f| cx.file(*f));

    // ── types, their members, operators, descriptions ──
    let mut all_types: Vec<_> = db.get_type_index().get_all_types();
    all_types.retain(|t| t.get_locations().iter().any(|l| !cx.is_std(l.file_id)) || t.get_locations().is_empty());
    let mut type_ids: Vec<LuaTypeDeclId> = vec![];
    for t in &all_types {
        let id = t.get_id();
        let name = cx.type_id(&id);
        let kind = if t.is_class() {
            "class"
        } else if t.is_enum() {
            "enum"
        } else {
            "alias"
        };
        let mut locs: Vec<String> = t.get_locations().iter().map(|l| format!("{}{:?}", cx.loc(l.file_id, l.range), l.flag)).collect();
        locs.sort();
        let mut line = format!("{name} {kind} locs=[{}]", locs.join(" "));
        if t.is_alias() {
            line.push_str(&format!(" origin={}", t.get_alias_ref().map(|o| cx.ty(o)).unwrap_or_else(|| "-".into())));
        }
        if t.is_enum() {
            // the field type of an enum is computed from its members, which the member section lists
            line.push_str(&format!(" enum_key={}", t.is_enum_key()));
        }
        if let Some(supers) = db.get_type_index().get_super_types(&id) {
            let mut s: Vec<String> = supers.iter().map(|s| cx.ty_brief(s)).collect();
            s.sort();
            line.push_str(&format!(" supers=[{}]", s.join(" ")));
        }
        if let Some(gp) = db.get_type_index().get_generic_params(&id) {
            line.push_str(&format!(" generics={}", gp.len()));
        }
        d.push("type", line);
        if let Some(p) = cx.property(&LuaSemanticDeclId::TypeDecl(id.clone())) {
            d.push("desc", format!("type:{name} {p}"));
        }
        // index-level members
        let owner = LuaMemberOwner::Type(id.clone());
        if let Some(members) = db.get_member_index().get_members(&owner) {
            for m in members {
                let mid = m.get_id();
                let ty = db.get_type_index().get_type_cache(&mid.into()).map(|c| cx.ty(c.as_type())).unwrap_or_else(|| "-".into());
                d.push(
                    "member",
                    format!("{name}.{} at {} {:?} : {}", cx.key(m.get_key()), cx.loc(m.get_file_id(), m.get_range()), m.get_feature(), ty),
                );
                if let Some(p) = cx.property(&LuaSemanticDeclId::Member(mid)) {
                    d.push("desc", format!("member:{name}.{} at {} {p}", cx.key(m.get_key()), cx.loc(m.get_file_id(), m.get_range())));
                }
            }
        }
        // operators
        for op in ALL_OPS {
            if let Some(ids) = db.get_operator_index().get_operators(&LuaOperatorOwner::Type(id.clone()), *op) {
                for oid in ids {
                    if let Some(o) = db.get_operator_index().get_operator(oid) {
                        let res = match o.get_result(db) {
                            Ok(t) => cx.ty(&t),
                            Err(_) => "<unresolved>".into(),
                        };
                        d.push("operator", format!("{name} {:?} at {} operand={} result={}", op, cx.loc(o.get_file_id(), o.get_range()), cx.ty(&o.get_operand(db)), res));
                    }
                }
            }
        }
        if let Some(refs) = db.get_reference_index().get_type_references(&id) {
            for r in refs {
                d.push("ref", format!("type {name} <- {}", cx.loc(r.file_id, r.value)));
            }
        }
        type_ids.push(id);
    }

    // ── members hung on type names that have no declaration (`---@type Foo` without a class Foo) ──
    for name in opts.name_probes {
        let id = LuaTypeDeclId::global(name);
        if type_ids.contains(&id) {
            continue;
        }
        if let Some(members) = db.get_member_index().get_members(&LuaMemberOwner::Type(id)) {
            for m in members {
                if cx.is_std(m.get_file_id()) {
                    continue;
                }
                let ty = db.get_type_index().get_type_cache(&m.get_id().into()).map(|c| cx.ty(c.as_type())).unwrap_or_else(|| "-".into());
                d.push("member", format!("undeclared:{name}.{} at {} {:?} : {}", cx.key(m.get_key()), cx.loc(m.get_file_id(), m.get_range()), m.get_feature(), ty));
            }
        }
    }

    // ── semantic-level member infos of every type (needs a model; any live file will do) ──
    if let Some(f0) = files.first() {
        if let Some(model) = analysis.compilation.get_semantic_model(*f0) {
            for id in &type_ids {
                if let Some(infos) = model.get_member_infos(&LuaType::Ref(id.clone())) {
                    for i in infos {
                        d.push(
                            "minfo",
                            format!(
                                "{}.{} : {} owner={} {:?}",
                                cx.type_id(id),
                                cx.key(&i.key),
                                cx.ty(&i.typ),
                                i.property_owner_id.as_ref().map(|o| cx.decl_id(o)).unwrap_or_else(|| "-".into()),
                                i.feature
                            ),
                        );
                    }
                }
            }
        }
    }

    // ── globals ──
    let mut global_names: BTreeSet<String> = opts.name_probes.iter().map(|s| s.to_string()).collect();
    for id in db.get_global_index().get_all_global_decl_ids() {
        if cx.is_std(id.file_id) {
            continue;
        }
        let Some(decl) = db.get_decl_index().get_decl(&id) else {
            d.push("global", format!("<dangling> at {}", cx.pos(id.file_id, id.position)));
            continue;
        };
        let ty = db.get_type_index().get_type_cache(&id.into()).map(|c| cx.ty(c.as_type())).unwrap_or_else(|| "-".into());
        d.push("global", format!("{} at {} : {}", decl.get_name(), cx.loc(id.file_id, decl.get_range()), ty));
        if let Some(p) = cx.property(&LuaSemanticDeclId::LuaDecl(id)) {
            d.push("desc", format!("global:{} at {} {p}", decl.get_name(), cx.loc(id.file_id, decl.get_range())));
        }
        global_names.insert(decl.get_name().to_string());
    }
    for name in &global_names {
        // members hung on the global path itself (`K.a = 1` while K has no table / class of its own)
        let owner = LuaMemberOwner::GlobalPath(emmylua_code_analysis::GlobalId::new(name));
        if let Some(members) = db.get_member_index().get_members(&owner) {
            for m in members {
                if cx.is_std(m.get_file_id()) {
                    continue;
                }
                let ty = db.get_type_index().get_type_cache(&m.get_id().into()).map(|c| cx.ty(c.as_type())).unwrap_or_else(|| "-".into());
                d.push("member", format!("global-path:{name}.{} at {} {:?} : {}", cx.key(m.get_key()), cx.loc(m.get_file_id(), m.get_range()), m.get_feature(), ty));
            }
        }
        if let Some(refs) = db.get_reference_index().get_global_references(name) {
            for r in refs {
                if cx.is_std(r.file_id) {
                    continue;
                }
                d.push("ref", format!("global {name} <- {}", cx.loc(r.file_id, r.value.get_range())));
            }
        }
        if let Some(refs) = db.get_reference_index().get_index_references(&LuaMemberKey::Name(name.as_str().into())) {
            for r in refs {
                if cx.is_std(r.file_id) {
                    continue;
                }
                d.push("ref", format!("index {name} <- {}", cx.loc(r.file_id, r.value.get_range())));
            }
        }
        for r in db.get_reference_index().get_string_references(name) {
            if cx.is_std(r.file_id) {
                continue;
            }
            d.push("ref", format!("string {name} <- {}", cx.loc(r.file_id, r.value)));
        }
    }

    // ── modules ──
    let mut probes: BTreeSet<String> = opts.module_probes.iter().map(|s| s.to_string()).collect();
    for m in db.get_module_index().get_module_infos() {
        if m.workspace_id.is_std() {
            continue;
        }
        d.push(
            "module",
            format!(
                "{} = {} name={} ws={} vis={:?} meta={} export={} semantic={} version={:?}",
                cx.file(m.file_id),
                m.full_module_name,
                m.name,
                m.workspace_id,
                m.visible,
                m.is_meta,
                m.export_type.as_ref().map(|t| cx.ty(t)).unwrap_or_else(|| "-".into()),
                m.semantic_id.as_ref().map(|s| cx.decl_id(s)).unwrap_or_else(|| "-".into()),
                m.version_conds
            ),
        );
        probes.insert(m.full_module_name.clone());
        probes.insert(m.name.clone());
    }
    for p in &probes {
        let ans = match db.get_module_index().find_module(p) {
            Some(m) => format!("{} ({})", cx.file(m.file_id), m.full_module_name),
            None => "none".to_string(),
        };
        d.push("module", format!("find_module({p}) = {ans}"));
    }

    // ── per file: existence, diagnostics, per-token semantic info, decl references ──
    for f in &files {
        let fname = cx.file(*f);
        let has_tree = db.get_vfs().get_syntax_tree(f).is_some();
        d.push("file", format!("{fname} tree={has_tree} module={}", db.get_module_index().get_module(*f).is_some()));
        // diagnostics
        match analysis.diagnose_file(*f, CancellationToken::new()) {
            Some(diags) => {
                for g in diags {
                    let code = match &g.code {
                        Some(lsp_types::NumberOrString::String(s)) => s.clone(),
                        Some(lsp_types::NumberOrString::Number(n)) => n.to_string(),
                        None => "-".into(),
                    };
                    let mut line = format!(
                        "{fname} {}:{}-{}:{} {code} {:?} {}",
                        g.range.start.line,
                        g.range.start.character,
                        g.range.end.line,
                        g.range.end.character,
                        g.severity,
                        if opts.strip_mismatch_reason {
                            let m = norm_message(&g.message);
                            match m.find(". ") {
                                Some(i) => m[..i + 1].to_string(),
                                None => m,
                            }
                        } else {
                            norm_message(&g.message)
                        }
                    );
                    if let Some(tags) = &g.tags {
                        line.push_str(&format!(" tags={:?}", tags));
                    }
                    if let Some(rel) = &g.related_information {
                        let mut rs: Vec<String> = rel
                            .iter()
                            .map(|r| {
                                let p = emmylua_code_analysis::uri_to_file_path(&r.location.uri);
                                let shown = match &p {
                                    Some(p) => {
                                        let known = analysis.get_file_id(&r.location.uri);
                                        match known {
                                            Some(id) => cx.file(id),
                                            None => match opts.dead.iter().find(|d| opts.base.join(&d.1) == *p) {
                                                Some(dd) => format!("<DEAD:{}>", dd.1),
                                                None => p.strip_prefix(opts.base).map(|r| r.to_string_lossy().to_string()).unwrap_or_else(|_| "<abs>".into()),
                                            },
                                        }
                                    }
                                    None => "<nouri>".into(),
                                };
                                format!("{shown}@{}:{} {}", r.location.range.start.line, r.location.range.start.character, norm_message(&r.message))
                            })
                            .collect();
                        rs.sort();
                        line.push_str(&format!(" related=[{}]", rs.join("; ")));
                    }
                    d.push("diag", line);
                }
            }
            None => d.push("diag", format!("{fname} <no diagnostics>")),
        }
        // semantic info per name token
        if let (Some(model), Some(tree)) = (analysis.compilation.get_semantic_model(*f), db.get_vfs().get_syntax_tree(f)) {
            let root = tree.get_chunk_node();
            for el in root.syntax().descendants_with_tokens() {
                let rowan::NodeOrToken::Token(tok) = el else { continue };
                if tok.kind() != LuaTokenKind::TkName.into() {
                    continue;
                }
                let r = tok.text_range();
                let info = model.get_semantic_info(rowan::NodeOrToken::Token(tok.clone()));
                let def = model.find_decl(rowan::NodeOrToken::Token(tok.clone()), SemanticDeclLevel::NoTrace);
                let (ty, decl) = match &info {
                    Some(i) => (cx.ty(&i.typ), i.semantic_decl.as_ref().map(|x| cx.decl_id(x)).unwrap_or_else(|| "-".into())),
                    None => ("<none>".to_string(), "-".to_string()),
                };
                let mut line = format!("{fname}@{}..{} {} : {} ==> {}", u32::from(r.start()), u32::from(r.end()), tok.text(), ty, decl);
                let def_s = def.as_ref().map(|x| cx.decl_id(x)).unwrap_or_else(|| "-".into());
                if def_s != decl {
                    line.push_str(&format!(" def={def_s}"));
                }
                d.push("sem", line);
            }
        } else {
            d.push("sem", format!("{fname} <no model>"));
        }
        // local references
        if let Some(map) = db.get_reference_index().get_decl_references_map(f) {
            for (decl, refs) in map {
                let mut cells: Vec<String> = refs.cells.iter().map(|c| format!("{}..{}{}", u32::from(c.range.start()), u32::from(c.range.end()), if c.is_write { "w" } else { "" })).collect();
                cells.sort();
                d.push("ref", format!("decl {} <- {fname} [{}]", cx.pos(decl.file_id, decl.position), cells.join(" ")));
            }
        }
    }
    d.finish();
    d
}

const ALL_OPS: &[LuaOperatorMetaMethod] = &[
    LuaOperatorMetaMethod::Add,
    LuaOperatorMetaMethod::Sub,
    LuaOperatorMetaMethod::Mul,
    LuaOperatorMetaMethod::Div,
    LuaOperatorMetaMethod::Mod,
    LuaOperatorMetaMethod::Pow,
    LuaOperatorMetaMethod::Unm,
    LuaOperatorMetaMethod::IDiv,
    LuaOperatorMetaMethod::BAnd,
    LuaOperatorMetaMethod::BOr,
    LuaOperatorMetaMethod::BXor,
    LuaOperatorMetaMethod::BNot,
    LuaOperatorMetaMethod::Shl,
    LuaOperatorMetaMethod::Shr,
    LuaOperatorMetaMethod::Concat,
    LuaOperatorMetaMethod::Len,
    LuaOperatorMetaMethod::Eq,
    LuaOperatorMetaMethod::Lt,
    LuaOperatorMetaMethod::Le,
    LuaOperatorMetaMethod::Index,
    LuaOperatorMetaMethod::Call,
    LuaOperatorMetaMethod::Pairs,
];

#[cfg(test)]
mod tests {
    use super::*;
    #[test]
    fn norm() {
        assert_eq!(norm_type("string|integer"), norm_type("integer|string"));
        assert_eq!(norm_type("fun(x: B|A): D|C"), norm_type("fun(x: A|B): C|D"));
        assert_eq!(norm_type("{ b: string, a: integer }"), norm_type("{ a: integer, b: string }"));
        assert_ne!(norm_type("fun(a: string, b: integer)"), norm_type("fun(b: integer, a: string)"));
    }
}
