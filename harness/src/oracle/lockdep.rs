//! Lock-discipline checker over an acquisition trace recorded by hook H4 (lockdep style: predictive,
//! it does not need the fatal interleaving to occur).
use emmylua_ls::verif::{LockEvent, Mode, Phase};
use std::collections::{BTreeMap, BTreeSet};

#[derive(Debug, Clone)]
pub struct Violation {
    pub sig: String,
    pub msg: String,
}

fn short_lock(name: &str) -> String {
    // type_name of the protected value, e.g. emmylua_code_analysis::EmmyLuaAnalysis
    let base = name.split('<').next().unwrap_or(name);
    let last = base.rsplit("::").next().unwrap_or(base);
    if name.contains('<') {
        // container types (HashMap<..>) are told apart by their full generic text's hash-free tail
        let inner = name.rsplit("::").next().unwrap_or(name).trim_end_matches('>');
        format!("{last}<{inner}>")
    } else {
        last.to_string()
    }
}

fn site_file(site: &str) -> String {
    // crates/emmylua_ls/src/handlers/x/mod.rs:12 -> handlers/x/mod.rs
    let s = site.rsplit_once(':').map(|x| x.0).unwrap_or(site);
    match s.find("/src/") {
        Some(i) => s[i + 5..].to_string(),
        None => s.to_string(),
    }
}

pub struct Report {
    pub violations: Vec<Violation>,
    pub sites: BTreeSet<String>,
    pub max_live_lockers: usize,
    pub had_writer: bool,
    pub edges: usize,
}

pub fn analyze(events: &[LockEvent]) -> Report {
    let mut held: BTreeMap<u64, Vec<(u32, Mode, String)>> = BTreeMap::new();
    let mut pending: BTreeMap<u64, (u32, &'static str, Mode, String)> = BTreeMap::new();
    // edge (l1 -> l2) : witness (site1, site2)
    let mut edges: BTreeMap<(u32, u32), BTreeSet<(String, String)>> = BTreeMap::new();
    let mut names: BTreeMap<u32, String> = BTreeMap::new();
    let mut violations = vec![];
    let mut sites = BTreeSet::new();
    let mut max_live = 0usize;
    let mut had_writer = false;
    for e in events {
        names.entry(e.lock).or_insert_with(|| short_lock(e.lock_name));
        match e.phase {
            Phase::Request => {
                sites.insert(e.site.clone());
                if e.mode == Mode::Write {
                    had_writer = true;
                }
                let h = held.entry(e.task).or_default();
                if let Some((_, m, s1)) = h.iter().find(|x| x.0 == e.lock) {
                    violations.push(Violation {
                        sig: format!("reacquire:{}:{}->{}", names[&e.lock], site_file(s1), site_file(&e.site)),
                        msg: format!("task {} requests {} ({:?}) at {} while already holding it ({:?}) from {}", e.task, names[&e.lock], e.mode, e.site, m, s1),
                    });
                }
                for (l1, _, s1) in h.iter() {
                    if *l1 != e.lock {
                        edges.entry((*l1, e.lock)).or_default().insert((site_file(s1), site_file(&e.site)));
                    }
                }
                pending.insert(e.task, (e.lock, e.lock_name, e.mode, e.site.clone()));
            }
            Phase::Acquired => {
                pending.remove(&e.task);
                held.entry(e.task).or_default().push((e.lock, e.mode, e.site.clone()));
                let live = held.values().filter(|v| !v.is_empty()).count() + pending.len();
                max_live = max_live.max(live);
            }
            Phase::Released => {
                if let Some(h) = held.get_mut(&e.task) {
                    if let Some(i) = h.iter().rposition(|x| x.0 == e.lock && x.1 == e.mode) {
                        h.remove(i);
                    }
                }
            }
        }
    }
    // tasks still waiting at the end of a settled run: wedged
    for (task, (lock, _, mode, site)) in &pending {
        violations.push(Violation {
            sig: format!("wedged:{}:{}", names[lock], site_file(site)),
            msg: format!("after quiescence task {task} is still waiting for {} ({mode:?}) requested at {site}", names[lock]),
        });
    }
    // cycles in the held-before relation (read and write alike: a queued writer turns readers into blockers)
    // 2-cycles: one violation per combination of acquisition-site files, so that signatures are stable
    // whatever subset of sites a case happens to exercise
    let mut in_two_cycle = BTreeSet::new();
    for (&(a, b), w_ab) in &edges {
        if a < b {
            if let Some(w_ba) = edges.get(&(b, a)) {
                in_two_cycle.insert((a, b));
                in_two_cycle.insert((b, a));
                for w1 in w_ab.iter().take(12) {
                    for w2 in w_ba.iter().take(12) {
                        let (na, nb) = (&names[&a], &names[&b]);
                        let e1 = format!("{na}@{}=>{nb}@{}", w1.0, w1.1);
                        let e2 = format!("{nb}@{}=>{na}@{}", w2.0, w2.1);
                        let (x, y) = if e1 <= e2 { (e1, e2) } else { (e2, e1) };
                        violations.push(Violation {
                            sig: format!("lock-order-cycle:{x}|{y}"),
                            msg: format!("no single global lock order: one task holds {na} (acquired in {}) and requests {nb} (in {}), another holds {nb} (acquired in {}) and requests {na} (in {})", w1.0, w1.1, w2.0, w2.1),
                        });
                    }
                }
            }
        }
    }
    // longer cycles (first witness per edge)
    let nodes: BTreeSet<u32> = edges.keys().flat_map(|(a, b)| [*a, *b]).collect();
    let mut reported = BTreeSet::new();
    for &start in &nodes {
        let mut stack = vec![(start, vec![start])];
        while let Some((n, path)) = stack.pop() {
            for (&(_, b), _) in edges.range((n, 0)..=(n, u32::MAX)) {
                if in_two_cycle.contains(&(n, b)) {
                    continue;
                }
                if b == start && path.len() >= 3 {
                    let mut parts = vec![];
                    for w in 0..path.len() {
                        let x = path[w];
                        let y = if w + 1 < path.len() { path[w + 1] } else { start };
                        let w0 = edges[&(x, y)].iter().next().cloned().unwrap_or_default();
                        parts.push(format!("{}@{}=>{}@{}", names[&x], w0.0, names[&y], w0.1));
                    }
                    let min = (0..parts.len()).min_by_key(|i| parts[*i].clone()).unwrap_or(0);
                    parts.rotate_left(min);
                    let sig = format!("lock-order-cycle:{}", parts.join("|"));
                    if reported.insert(sig.clone()) {
                        violations.push(Violation { msg: format!("held-before relation has a cycle: {}", parts.join(" ; ")), sig });
                    }
                } else if b != start && !path.contains(&b) && path.len() < 5 {
                    let mut p = path.clone();
                    p.push(b);
                    stack.push((b, p));
                }
            }
        }
    }
    violations.sort_by(|a, b| a.sig.cmp(&b.sig));
    violations.dedup_by(|a, b| a.sig == b.sig);
    Report { violations, sites, max_live_lockers: max_live, had_writer, edges: edges.len() }
}
