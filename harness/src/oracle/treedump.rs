//! Full structural dump of a syntax tree: one line per element with depth, kind, byte range and – for tokens –
//! the complete text (rowan's own `{:#?}` abbreviates long token texts).
use emmylua_parser::{LuaParseError, LuaSyntaxNode};
use std::fmt::Write;

pub fn dump(root: &LuaSyntaxNode) -> String {
    let mut out = String::new();
    let mut depth = 0usize;
    for ev in root.preorder_with_tokens() {
        match ev {
            rowan::WalkEvent::Enter(el) => {
                match &el {
                    rowan::NodeOrToken::Node(n) => {
                        let r = n.text_range();
                        let _ = writeln!(out, "{depth} N {:?} {}..{}", n.kind(), u32::from(r.start()), u32::from(r.end()));
                    }
                    rowan::NodeOrToken::Token(t) => {
                        let r = t.text_range();
                        let _ = writeln!(out, "{depth} T {:?} {}..{} {:?}", t.kind(), u32::from(r.start()), u32::from(r.end()), t.text());
                    }
                }
                depth += 1;
            }
            rowan::WalkEvent::Leave(_) => depth -= 1,
        }
    }
    out
}

pub fn errors(errs: &[LuaParseError]) -> String {
    let mut out = String::new();
    for e in errs {
        let _ = writeln!(out, "{:?} {:?} {}", e.kind, e.range, e.message);
    }
    out
}

/// first differing line of two dumps (for messages)
pub fn first_diff(a: &str, b: &str) -> String {
    let (mut ia, mut ib) = (a.lines(), b.lines());
    let mut n = 0;
    loop {
        n += 1;
        match (ia.next(), ib.next()) {
            (Some(x), Some(y)) if x == y => continue,
            (x, y) => return format!("line {n}: {:?} vs {:?}", x.unwrap_or("<end>"), y.unwrap_or("<end>")),
        }
    }
}
