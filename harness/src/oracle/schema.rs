//! Oracle of C40 (shared with the libFuzzer target `fuzz_schema`, which includes this file by path; keep it free of
//! harness-internal dependencies).
use emmylua_code_analysis::VirtualWorkspace;
use emmylua_parser::{LuaParser, ParserConfig};
use serde_json::Value;

/// Mechanical classification of the annotation line a parse error lies on (the root-cause key of a syntax failure):
/// which emitter statement produced the line, or `raw` when the line is not a comment at all (a line break leaked
/// out of a name / value / description).
pub fn line_kind(line: &str) -> &'static str {
    let l = line.trim_start();
    if !l.starts_with("--") {
        return "raw";
    }
    if l.starts_with("---@class") {
        "class"
    } else if l.starts_with("---@alias") {
        "alias"
    } else if l.starts_with("---@field") {
        "field"
    } else if l.starts_with("---|") {
        "variant"
    } else if l.starts_with("---@") {
        "tag"
    } else {
        "comment"
    }
}

/// line (split at \n only) containing byte offset `off`, and whether a `\r` precedes `off` on that line
pub fn line_at(text: &str, off: usize) -> (&str, bool) {
    let off = off.min(text.len());
    let start = text[..off].rfind('\n').map(|i| i + 1).unwrap_or(0);
    let end = text[off..].find('\n').map(|i| off + i).unwrap_or(text.len());
    let line = &text[start..end];
    let cr = text[start..off].contains('\r');
    (line, cr)
}

/// normalises a parser message into a short key: lower-case words only, literals and numbers dropped
pub fn msg_key(m: &str) -> String {
    let mut out = String::new();
    for w in m.split(|c: char| !c.is_ascii_alphabetic()).filter(|w| !w.is_empty()).take(6) {
        if !out.is_empty() {
            out.push('-');
        }
        out.push_str(&w.to_ascii_lowercase());
    }
    out
}

/// whether a name can be written as one doc type name token (what `---@class NAME` reads back)
pub fn is_plain_type_name(s: &str) -> bool {
    let mut chars = s.chars();
    match chars.next() {
        Some(c) if c.is_alphabetic() || c == '_' => {}
        _ => return false,
    }
    s.chars().all(|c| c.is_alphanumeric() || c == '_' || c == '.')
}


fn one_line(s: &str, max: usize) -> String {
    let mut t: String = s.chars().map(|c| if c == '\n' || c == '\r' { ' ' } else { c }).collect();
    if t.len() > max {
        let mut end = max;
        while !t.is_char_boundary(end) {
            end -= 1;
        }
        t.truncate(end);
        t.push('…');
    }
    t
}

/// Judges the converter's result for `schema`: the text parses with zero errors and declares `root`.
/// Ok(number of declared types) or Err((sig, msg)).  Panics of the parser / analysis propagate to the caller.
pub fn judge_result(schema: &Value, text: &str, root: &str) -> Result<usize, (String, String)> {
    let tree = LuaParser::parse(text, ParserConfig::default());
    if let Some(e) = tree.get_errors().first() {
        let off: usize = e.range.start().into();
        let (line, after_cr) = line_at(text, off);
        let kind = if after_cr { "raw" } else { line_kind(line) };
        let sig = format!("syntax:{}:{}", kind, msg_key(&e.message));
        return Err((
            sig,
            format!("annotation text has {} parse error(s); first: {:?} at {:?} on line {:?}; root={:?}", tree.get_errors().len(), e.message, e.range, one_line(line, 200), root),
        ));
    }
    let mut ws = VirtualWorkspace::new();
    let id = ws.def_file("schema.lua", text);
    let db = ws.analysis.compilation.get_db();
    let declared: Vec<String> = db.get_type_index().get_file_type_decls(id).iter().filter(|d| d.is_class() || d.is_alias() || d.is_enum()).map(|d| d.get_full_name().to_string()).collect();
    if !declared.iter().any(|n| n == root) {
        let title = schema.get("title");
        let why = match title {
            None => "no-title",
            Some(Value::String(t)) if !is_plain_type_name(t) => "title-not-a-name",
            Some(Value::String(_)) if schema.get("properties").is_none() => "title-without-properties",
            Some(Value::String(_)) => "other",
            Some(_) => "title-non-string",
        };
        let mut shown = declared.clone();
        shown.truncate(8);
        return Err((format!("root-undeclared:{why}"), format!("root_type_name {:?} is not declared by the annotation text; declared: {:?}; text: {:?}", root, shown, one_line(text, 400))));
    }
    Ok(declared.len())
}
