//! Helpers around `VirtualWorkspace` for the type-level properties (C16–C18): materialising annotation texts as
//! `LuaType`s, reading diagnostics, and a canonical structural form of a `LuaType` (unions flattened and sorted).
use crate::gens::doc_types::World;
use emmylua_code_analysis::{DbIndex, FileId, LuaMemberKey, LuaType, LuaUnionType, VariadicType, VirtualWorkspace};
use emmylua_parser::{LuaAstNode, LuaAstToken, LuaLocalName};
use tokio_util::sync::CancellationToken;

/// fresh workspace (no std lib) with the world's prelude defined as `prelude.lua`
pub fn workspace(world: &World) -> (VirtualWorkspace, FileId) {
    let mut ws = VirtualWorkspace::new();
    let id = ws.def_file("prelude.lua", &world.prelude());
    (ws, id)
}

pub fn db(ws: &VirtualWorkspace) -> &DbIndex {
    ws.analysis.compilation.get_db()
}

/// syntax errors (code and doc) of a file
pub fn syntax_errors(ws: &VirtualWorkspace, file: FileId) -> Vec<String> {
    match db(ws).get_vfs().get_syntax_tree(&file) {
        Some(tree) => tree.get_errors().iter().map(|e| format!("{:?}@{:?}: {}", e.kind, e.range, e.message)).collect(),
        None => vec!["no syntax tree".to_string()],
    }
}

/// (code, message, 0-based start line) of the diagnostics of a file under the default configuration
pub fn diagnostics(ws: &VirtualWorkspace, file: FileId) -> Vec<(String, String, u32)> {
    let mut out = vec![];
    if let Some(ds) = ws.analysis.diagnose_file(file, CancellationToken::new()) {
        for d in ds {
            let code = match d.code {
                Some(lsp_types::NumberOrString::String(s)) => s,
                Some(lsp_types::NumberOrString::Number(n)) => n.to_string(),
                None => String::new(),
            };
            out.push((code, d.message, d.range.start.line));
        }
    }
    out
}

/// types of all `local` names of a file, in source order
pub fn local_types(ws: &VirtualWorkspace, file: FileId) -> Result<Vec<(String, LuaType)>, String> {
    let tree = db(ws).get_vfs().get_syntax_tree(&file).ok_or("no syntax tree")?;
    let model = ws.analysis.compilation.get_semantic_model(file).ok_or("no semantic model")?;
    let mut out = vec![];
    for ln in tree.get_chunk_node().descendants::<LuaLocalName>() {
        let tok = ln.get_name_token().ok_or("local name without token")?;
        let name = tok.get_name_text().to_string();
        let info = model.get_semantic_info(tok.syntax().clone().into()).ok_or_else(|| format!("no semantic info for {name}"))?;
        out.push((name, info.typ));
    }
    Ok(out)
}

/// Defines one file `---@type <text_i>\nlocal v<i>` per call and returns the declared types in order.
pub fn materialise(ws: &mut VirtualWorkspace, file_name: &str, texts: &[String]) -> Result<(FileId, Vec<LuaType>), String> {
    let mut src = String::new();
    for (i, t) in texts.iter().enumerate() {
        src.push_str(&format!("---@type {t}\nlocal v{i}\n"));
    }
    let id = ws.def_file(file_name, &src);
    let ls = local_types(ws, id)?;
    if ls.len() != texts.len() {
        return Err(format!("expected {} locals, found {} in {:?}", texts.len(), ls.len(), src));
    }
    Ok((id, ls.into_iter().map(|x| x.1).collect()))
}

// ------------------------------------------------------------------------------------------------
// canonical form

fn key_canon(db: &DbIndex, k: &LuaMemberKey, o: &CanonOpts) -> String {
    match k {
        LuaMemberKey::None => "<none>".into(),
        LuaMemberKey::Integer(i) => format!("[{i}]"),
        LuaMemberKey::Name(n) => format!("{:?}", n.as_str()),
        LuaMemberKey::TypeKey(t) => format!("[{}]", canon_with(db, t, o)),
    }
}

#[derive(Clone, Copy, Default)]
pub struct CanonOpts {
    /// replace references to aliases by the alias's origin type
    pub expand_aliases: bool,
    /// doc literals and inferred literals compare equal (`DocIntegerConst(1)` = `IntegerConst(1)`)
    pub merge_const_kinds: bool,
    /// keep `any | T` as a union instead of collapsing it to `any`
    pub no_any_absorb: bool,
}

pub fn canon(db: &DbIndex, t: &LuaType) -> String {
    canon_with(db, t, &CanonOpts::default())
}

fn alias_origin(db: &DbIndex, t: &LuaType) -> Option<LuaType> {
    if let LuaType::Ref(id) = t {
        let decl = db.get_type_index().get_type_decl(id)?;
        if decl.is_alias() {
            return decl.get_alias_origin(db, None);
        }
    }
    None
}

fn flatten_union(db: &DbIndex, t: &LuaType, o: &CanonOpts, out: &mut Vec<String>, depth: u32) {
    match t {
        LuaType::Union(u) => {
            for m in u.into_vec() {
                flatten_union(db, &m, o, out, depth)
            }
        }
        LuaType::MultiLineUnion(u) if o.expand_aliases => {
            for (m, _) in u.get_unions() {
                flatten_union(db, m, o, out, depth)
            }
        }
        LuaType::Ref(id) if o.expand_aliases => match alias_origin(db, t) {
            Some(origin) if depth < 8 => flatten_union(db, &origin, o, out, depth + 1),
            _ => out.push(format!("Ref({})", id.get_name())),
        },
        other => out.push(canon_with(db, other, o)),
    }
}

/// Canonical structural rendering: unions flattened, members sorted and deduplicated; record fields sorted; table
/// constants produced by a bare `---@type table` are `table`.  Everything else structural.
pub fn canon_with(db: &DbIndex, t: &LuaType, o: &CanonOpts) -> String {
    let list = |ts: &[LuaType]| ts.iter().map(|x| canon_with(db, x, o)).collect::<Vec<_>>().join(", ");
    let unionish = match t {
        LuaType::Union(_) => true,
        LuaType::MultiLineUnion(_) => o.expand_aliases,
        LuaType::Ref(_) => o.expand_aliases && alias_origin(db, t).is_some(),
        _ => false,
    };
    if unionish {
        let mut ms = vec![];
        flatten_union(db, t, o, &mut ms, 0);
        ms.sort();
        ms.dedup();
        if !o.no_any_absorb && ms.iter().any(|m| m == "Any") {
            // `any | T` is `any` (TypeOps::Union itself says so; `any|nil` written with `|` merely keeps both members)
            return "Any".into();
        }
        return if ms.len() == 1 { ms.pop().unwrap() } else { format!("U({})", ms.join(" | ")) };
    }
    match t {
        LuaType::TableConst(_) => "table".into(),
        LuaType::Table => "table".into(),
        // a per-call-site instance of a table type denotes its base type
        LuaType::Instance(i) => canon_with(db, i.get_base(), o),
        LuaType::Ref(id) => format!("Ref({})", id.get_name()),
        LuaType::Def(id) => format!("Def({})", id.get_name()),
        LuaType::Array(a) => format!("Array({})", canon_with(db, a.get_base(), o)),
        LuaType::Tuple(tp) => format!("Tuple({})", list(tp.get_types())),
        LuaType::TableGeneric(ps) => format!("Table<{}>", list(ps)),
        LuaType::Generic(g) => format!("Generic({}<{}>)", g.get_base_type_id_ref().get_name(), list(g.get_params())),
        LuaType::Object(obj) => {
            let mut fs: Vec<String> = obj.get_fields().iter().map(|(k, v)| format!("{}: {}", key_canon(db, k, o), canon_with(db, v, o))).collect();
            fs.sort();
            let mut ix: Vec<String> = obj.get_index_access().iter().map(|(k, v)| format!("[{}]: {}", canon_with(db, k, o), canon_with(db, v, o))).collect();
            ix.sort();
            format!("Object{{{}; {}}}", fs.join(", "), ix.join(", "))
        }
        LuaType::DocFunction(f) => {
            let ps: Vec<String> = f
                .get_params()
                .iter()
                .map(|(n, t)| match t {
                    Some(t) => format!("{n}: {}", canon_with(db, t, o)),
                    None => n.clone(),
                })
                .collect();
            format!(
                "Fun[{:?}{}{}]({}) -> {}",
                f.get_async_state(),
                if f.is_colon_define() { " colon" } else { "" },
                if f.is_variadic() { " variadic" } else { "" },
                ps.join(", "),
                canon_with(db, f.get_ret(), o)
            )
        }
        LuaType::Variadic(v) => match &**v {
            VariadicType::Base(b) => format!("Variadic({}...)", canon_with(db, b, o)),
            VariadicType::Multi(ts) => format!("Multi({})", list(ts)),
        },
        LuaType::DocStringConst(s) => {
            if o.merge_const_kinds { format!("Str({:?})", s.as_str()) } else { format!("DocStr({:?})", s.as_str()) }
        }
        LuaType::StringConst(s) => format!("Str({:?})", s.as_str()),
        LuaType::DocIntegerConst(i) => {
            if o.merge_const_kinds { format!("Int({i})") } else { format!("DocInt({i})") }
        }
        LuaType::IntegerConst(i) => format!("Int({i})"),
        LuaType::DocBooleanConst(b) => {
            if o.merge_const_kinds { format!("Bool({b})") } else { format!("DocBool({b})") }
        }
        LuaType::BooleanConst(b) => format!("Bool({b})"),
        LuaType::TplRef(tpl) => format!("Tpl({})", tpl.get_name()),
        other => format!("{:?}", other),
    }
}

/// base type name of a literal type (aliases looked through, single-member unions unwrapped): "string" / "integer" / "boolean"
pub fn literal_base(db: &DbIndex, t: &LuaType) -> Option<&'static str> {
    let mut cur = t.clone();
    for _ in 0..8 {
        match alias_origin(db, &cur) {
            Some(o) => cur = o,
            None => break,
        }
    }
    match &cur {
        LuaType::DocStringConst(_) | LuaType::StringConst(_) => Some("string"),
        LuaType::DocIntegerConst(_) | LuaType::IntegerConst(_) => Some("integer"),
        LuaType::DocBooleanConst(_) | LuaType::BooleanConst(_) => Some("boolean"),
        _ => None,
    }
}

/// does `unknown` occur anywhere inside the type?
pub fn mentions_unknown(db: &DbIndex, t: &LuaType) -> bool {
    canon_with(db, t, &CanonOpts { no_any_absorb: true, ..CanonOpts::default() }).contains("Unknown")
}

/// canonical form of `t` with the nil alternative removed (None if nothing is left)
pub fn canon_strip_nil(db: &DbIndex, t: &LuaType, o: &CanonOpts) -> Option<String> {
    let mut ms = vec![];
    flatten_union(db, t, o, &mut ms, 0);
    ms.retain(|m| m != "Nil");
    ms.sort();
    ms.dedup();
    match ms.len() {
        0 => None,
        1 => ms.pop(),
        _ => Some(format!("U({})", ms.join(" | "))),
    }
}

/// members of a (possibly nested) union in canonical form, sorted, duplicates kept
pub fn union_members_multiset(db: &DbIndex, t: &LuaType) -> Vec<String> {
    fn go(db: &DbIndex, t: &LuaType, out: &mut Vec<String>) {
        match t {
            LuaType::Union(u) => {
                for m in u.into_vec() {
                    go(db, &m, out)
                }
            }
            other => out.push(canon(db, other)),
        }
    }
    let mut out = vec![];
    go(db, t, &mut out);
    out.sort();
    out
}

#[allow(unused)]
pub fn is_union_kind(t: &LuaType) -> Option<&'static str> {
    match t {
        LuaType::Union(u) => Some(match &**u {
            LuaUnionType::Basic(_) => "basic",
            LuaUnionType::Nullable(_) => "nullable",
            LuaUnionType::Multi(_) => "multi",
        }),
        _ => None,
    }
}

/// `vcheck --tool ty <file.lua> [prelude.lua]`: types of all locals of a file (debug aid)
pub fn tool_main(args: &[String]) -> i32 {
    use emmylua_code_analysis::{RenderLevel, humanize_type};
    let mut ws = VirtualWorkspace::new();
    if let Some(p) = args.get(1) {
        let text = std::fs::read_to_string(p).expect("read prelude");
        let id = ws.def_file("prelude.lua", &text);
        for e in syntax_errors(&ws, id) {
            println!("PRELUDE-ERR {e}");
        }
    }
    let text = std::fs::read_to_string(&args[0]).expect("read");
    let id = ws.def_file("main.lua", &text);
    for e in syntax_errors(&ws, id) {
        println!("ERR {e}");
    }
    match local_types(&ws, id) {
        Ok(ls) => {
            for (n, t) in ls {
                println!("{n}: {:?}\n    canon = {}\n    doc   = {:?}\n    detail= {:?}", t, canon(db(&ws), &t), humanize_type(db(&ws), &t, RenderLevel::Documentation), humanize_type(db(&ws), &t, RenderLevel::Detailed));
            }
        }
        Err(e) => println!("local_types: {e}"),
    }
    for (c, m, l) in diagnostics(&ws, id) {
        println!("DIAG line {l} [{c}] {m}");
    }
    0
}
