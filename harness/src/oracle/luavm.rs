//! `luars` (a Rust port of the Lua 5.5 compiler) as a compile-only reference.
#[allow(unused_imports)]
use luars::LuaApi;
use luars::{Lua, LuaError, SafeOption};

pub struct Lua55 {
    lua: Lua,
    uses: u32,
}

impl Default for Lua55 {
    fn default() -> Self {
        Self::new()
    }
}

impl Lua55 {
    pub fn new() -> Lua55 {
        Lua55 { lua: Lua::new(SafeOption::default()), uses: 0 }
    }

    /// Ok(()) when `src` compiles as a Lua 5.5 chunk; Err(Some(msg)) for a compile error; Err(None) for any
    /// other failure of the reference itself (stack overflow, out of memory) – callers must not judge on those.
    pub fn compile(&mut self, src: &str) -> Result<(), Option<String>> {
        self.uses += 1;
        if self.uses % 2048 == 0 {
            // keep the VM's heap small: compiled prototypes are garbage right away
            self.lua = Lua::new(SafeOption::default());
        }
        let lua = &mut self.lua;
        let r = match std::panic::catch_unwind(std::panic::AssertUnwindSafe(|| lua.load(src).into_function().map(|_| ()))) {
            Ok(r) => r,
            Err(_) => {
                // a panic inside the reference: its state is unknown, start over
                self.lua = Lua::new(SafeOption::default());
                return Err(None);
            }
        };
        match r {
            Ok(()) => Ok(()),
            Err(e) => {
                let m = self.lua.get_error_message(e);
                match m.kind {
                    LuaError::CompileError => Err(Some(m.message)),
                    _ => Err(None),
                }
            }
        }
    }
}
