//! Reference `require` resolver (C33), written from the documented semantics:
//! * a file is a module when its path relative to a workspace/library root matches a pattern (`?.ext` for `lua` and every
//!   configured extension, plus `runtime.requirePattern`, default `?/init.ext`); `?` is the module path with `/` for `.`;
//! * `workspace.moduleMap` rewrites module names (regex `pattern` -> `replace`);
//! * exact matches are preferred over fuzzy suffix matches; fuzzy (only when `strict.requirePath` is off) accepts a module
//!   whose name ends with `.<path>` and prefers the fewest leading segments.
//! The model is deliberately *permissive* where the documentation is silent: every (root, pattern) reading of a file
//! is an acceptable name of it ("any" names); only the most specific reading (nearest root, most literal pattern — the
//! conventional meaning of `a/init.lua` = module `a`) is *demanded* to resolve ("primary" name).
use std::collections::BTreeSet;

#[derive(Clone, Debug)]
pub enum MapRule {
    /// regex `^old(.*)$` -> `new$1`
    Prefix { old: String, new: String },
    /// regex `^old$` -> `new`  (dots in `old` escaped)
    Exact { old: String, new: String },
}

impl MapRule {
    pub fn to_config(&self) -> (String, String) {
        match self {
            MapRule::Prefix { old, new } => (format!("^{}(.*)$", old.replace('.', "\\.")), format!("{new}$1")),
            MapRule::Exact { old, new } => (format!("^{}$", old.replace('.', "\\.")), new.clone()),
        }
    }
    fn apply(&self, s: &str) -> String {
        match self {
            MapRule::Prefix { old, new } => match s.strip_prefix(old.as_str()) {
                Some(rest) => format!("{new}{rest}"),
                None => s.to_string(),
            },
            MapRule::Exact { old, new } => {
                if s == old {
                    new.clone()
                } else {
                    s.to_string()
                }
            }
        }
    }
}

#[derive(Clone, Debug)]
pub struct Cfg {
    /// `runtime.extensions` as configured
    pub extensions: Vec<String>,
    /// `runtime.requirePattern` as configured
    pub require_pattern: Vec<String>,
    pub module_map: Vec<MapRule>,
    /// `strict.requirePath`
    pub strict: bool,
}

impl Cfg {
    /// the effective search patterns
    pub fn patterns(&self) -> Vec<String> {
        let mut exts: Vec<String> = vec![];
        for e in &self.extensions {
            let x = e.strip_prefix('.').or_else(|| e.strip_prefix("*.")).unwrap_or(e).to_string();
            if !exts.contains(&x) {
                exts.push(x);
            }
        }
        if !exts.contains(&"lua".to_string()) {
            exts.push("lua".into());
        }
        let mut out: Vec<String> = exts.iter().map(|e| format!("?.{e}")).collect();
        if self.require_pattern.is_empty() {
            out.extend(exts.iter().map(|e| format!("?/init.{e}")));
        } else {
            for p in &self.require_pattern {
                if !out.contains(p) {
                    out.push(p.clone());
                }
            }
        }
        out
    }
    pub fn map(&self, name: &str) -> String {
        let mut s = name.to_string();
        for r in &self.module_map {
            s = r.apply(&s);
        }
        s
    }
}

/// `?`-pattern match (exactly one `?`): the text `?` stands for, if the pattern matches the whole relative path
pub fn match_pattern(pattern: &str, rel: &str) -> Option<String> {
    let (pre, post) = pattern.split_once('?')?;
    if post.contains('?') {
        return None;
    }
    let mid = rel.strip_prefix(pre)?.strip_suffix(post)?;
    if rel.len() < pre.len() + post.len() {
        return None;
    }
    Some(mid.to_string())
}

#[derive(Clone, Debug)]
pub struct FileNames {
    /// every acceptable module name of the file (all roots x all patterns, raw and module-mapped)
    pub any: BTreeSet<String>,
    /// the demanded name: nearest root, most literal pattern, module-mapped
    pub primary: Option<String>,
}

pub fn names_of(path: &str, roots: &[String], cfg: &Cfg) -> FileNames {
    let pats = cfg.patterns();
    let mut any = BTreeSet::new();
    let mut primary: Option<String> = None;
    for root in roots {
        let Some(rel) = path.strip_prefix(root.as_str()).and_then(|r| r.strip_prefix('/')) else { continue };
        if rel.is_empty() {
            continue;
        }
        // most literal pattern first
        let mut best: Option<(usize, String)> = None;
        for p in &pats {
            if let Some(m) = match_pattern(p, rel) {
                let name = m.replace('/', ".");
                any.insert(name.clone());
                any.insert(cfg.map(&name));
                if best.as_ref().map(|b| p.len() > b.0).unwrap_or(true) {
                    best = Some((p.len(), name));
                }
            }
        }
        if let Some((_, name)) = best {
            // nearest root = shortest name
            if primary.as_ref().map(|q| name.len() < q.len()).unwrap_or(true) {
                primary = Some(name);
            }
        }
    }
    FileNames { any, primary: primary.map(|n| cfg.map(&n)) }
}

fn lead(name: &str, q: &str) -> Option<usize> {
    if name == q {
        return Some(0);
    }
    let pre = name.strip_suffix(q)?.strip_suffix('.')?;
    Some(pre.split('.').filter(|s| !s.is_empty()).count())
}

#[derive(Clone, Debug)]
pub struct Expect {
    /// indices (into `files`) the answer may be
    pub allowed: BTreeSet<usize>,
    /// the require must resolve
    pub must: bool,
    pub stage: &'static str,
}

/// What `require(raw)` may resolve to over `files` (names per file; `None` entries = file currently absent).
pub fn expect(raw: &str, files: &[Option<FileNames>], cfg: &Cfg) -> Expect {
    let p = raw.replace(['\\', '/'], ".");
    let pm = cfg.map(&p);
    let live = || files.iter().enumerate().filter_map(|(i, f)| f.as_ref().map(|f| (i, f)));
    let exact_any = |q: &str| -> BTreeSet<usize> { live().filter(|(_, f)| f.any.contains(q)).map(|x| x.0).collect() };
    let exact_pri = |q: &str| -> BTreeSet<usize> { live().filter(|(_, f)| f.primary.as_deref() == Some(q)).map(|x| x.0).collect() };
    let mut allowed = exact_any(&p);
    if !exact_pri(&p).is_empty() {
        return Expect { allowed, must: true, stage: "exact" };
    }
    if pm != p {
        allowed.extend(exact_any(&pm));
        if !exact_pri(&pm).is_empty() {
            return Expect { allowed, must: true, stage: "mapped" };
        }
    }
    if !cfg.strict {
        let mut must = false;
        let qs: Vec<&String> = if pm != p { vec![&pm, &p] } else { vec![&p] };
        for q in qs {
            if q.is_empty() {
                continue;
            }
            let pri_best = live().filter_map(|(_, f)| f.primary.as_deref().and_then(|n| lead(n, q))).min();
            if pri_best.is_some() {
                must = true;
            }
            for (i, f) in live() {
                let l = f.any.iter().filter_map(|n| lead(n, q)).min();
                if let Some(l) = l {
                    if pri_best.map(|b| l <= b).unwrap_or(true) {
                        allowed.insert(i);
                    }
                }
            }
        }
        if must {
            return Expect { allowed, must: true, stage: "fuzzy" };
        }
    }
    let stage = if allowed.is_empty() { "none" } else { "secondary" };
    Expect { allowed, must: false, stage }
}
