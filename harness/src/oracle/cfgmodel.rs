//! JSON-level reference model of configuration loading (C32):
//! every file is first expanded to nested form (a dotted key `a.b` means `{"a":{"b":..}}`), then files are merged
//! left to right: objects recursively, arrays appended skipping values already present, anything else later-wins.
use serde_json::{Map, Value};
use std::collections::BTreeSet;

/// nested form of one file
pub fn expand(v: &Value) -> Value {
    match v {
        Value::Object(m) => {
            let mut out = Value::Object(Map::new());
            for (k, x) in m {
                let x = expand(x);
                let segs: Vec<&str> = k.split('.').collect();
                put(&mut out, &segs, x);
            }
            out
        }
        other => other.clone(),
    }
}

/// place `x` at the path; inside one file two spellings of one object merge, anything else replaces
fn put(target: &mut Value, segs: &[&str], x: Value) {
    if !target.is_object() {
        *target = Value::Object(Map::new());
    }
    let m = target.as_object_mut().unwrap();
    if segs.len() == 1 {
        match (m.get_mut(segs[0]), x) {
            (Some(old @ Value::Object(_)), Value::Object(new)) => {
                for (k, v) in new {
                    put(old, &[k.as_str()], v);
                }
            }
            (_, x) => {
                m.insert(segs[0].to_string(), x);
            }
        }
    } else {
        let slot = m.entry(segs[0].to_string()).or_insert_with(|| Value::Object(Map::new()));
        put(slot, &segs[1..], x);
    }
}

pub fn merge(base: &mut Value, overlay: &Value) {
    match (base, overlay) {
        (Value::Object(b), Value::Object(o)) => {
            for (k, v) in o {
                match b.get_mut(k) {
                    Some(slot) => merge(slot, v),
                    None => {
                        b.insert(k.clone(), v.clone());
                    }
                }
            }
        }
        (Value::Array(b), Value::Array(o)) => {
            for item in o {
                if !b.contains(item) {
                    b.push(item.clone());
                }
            }
        }
        (slot, v) => *slot = v.clone(),
    }
}

/// the merged nested JSON of a list of config objects (in file order)
pub fn load(files: &[Value]) -> Value {
    let mut acc = Value::Object(Map::new());
    for f in files {
        merge(&mut acc, &expand(f));
    }
    acc
}

/// flattened leaf paths of a JSON value (dotted keys split), used to detect value/prefix collisions
pub fn leaf_paths(v: &Value, prefix: &str, out: &mut Vec<String>) {
    match v {
        Value::Object(m) => {
            for (k, x) in m {
                let p = if prefix.is_empty() { k.clone() } else { format!("{prefix}.{k}") };
                leaf_paths(x, &p, out);
            }
        }
        _ => out.push(prefix.to_string()),
    }
}

/// true when one leaf path is a proper dotted prefix of another (a key that is both a value and a prefix)
pub fn has_collision(paths: &[String]) -> bool {
    let mut sorted: Vec<&String> = paths.iter().collect();
    sorted.sort();
    sorted.dedup();
    for (i, p) in sorted.iter().enumerate() {
        let pre = format!("{p}.");
        for q in &sorted[i + 1..] {
            if q.starts_with(&pre) {
                return true;
            }
        }
    }
    false
}

/// first differing path (dotted) between two JSON values and whether an array is involved
pub fn first_diff(a: &Value, b: &Value, path: &str) -> Option<(String, &'static str)> {
    match (a, b) {
        (Value::Object(x), Value::Object(y)) => {
            let keys: BTreeSet<&String> = x.keys().chain(y.keys()).collect();
            for k in keys {
                let p = if path.is_empty() { k.to_string() } else { format!("{path}.{k}") };
                match (x.get(k), y.get(k)) {
                    (Some(u), Some(v)) => {
                        if let Some(d) = first_diff(u, v, &p) {
                            return Some(d);
                        }
                    }
                    (Some(u), None) | (None, Some(u)) => return Some((p, if u.is_array() { "array" } else { "scalar" })),
                    _ => {}
                }
            }
            None
        }
        (u, v) if u == v => None,
        (u, v) => Some((path.to_string(), if u.is_array() || v.is_array() { "array" } else { "scalar" })),
    }
}

/// rendering of the value at a dotted path (for messages)
pub fn at(v: &Value, path: &str) -> String {
    path.split('.').try_fold(v.clone(), |acc, k| acc.get(k).cloned()).map(|x| x.to_string()).unwrap_or_else(|| "-".into())
}
