//! Shared reference models / validators.
pub mod scoping;
