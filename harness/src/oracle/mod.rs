//! Shared reference models / validators.
pub mod luaexec;
