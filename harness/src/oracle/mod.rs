//! Shared reference models / validators.
pub mod tokcanon;
