//! Shared reference models / validators.
