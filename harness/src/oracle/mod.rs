//! Shared reference models / validators.
pub mod cfgmodel;
pub mod modres;
