//! Shared reference models / validators.
pub mod tyws;
