//! Shared reference models / validators.
pub mod luavm;
