//! Shared reference models / validators.
pub mod treedump;
