//! Shared reference models / validators.
pub mod dump;
