//! Shared reference models / validators.
pub mod desc;
pub mod schema;
