//! Shared reference models / validators.
pub mod lockdep;
