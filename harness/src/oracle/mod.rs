//! Shared reference models / validators.
pub mod lockdep;
pub mod utf16;
pub mod luavm;
pub mod lspshape;
pub mod treedump;
pub mod cfgmodel;
pub mod modres;
pub mod desc;
pub mod schema;
pub mod scoping;
pub mod luaexec;
pub mod tyws;
pub mod dump;
pub mod tokcanon;
