//! Shared reference models / validators.
pub mod utf16;
