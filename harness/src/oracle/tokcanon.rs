//! `tokcanon`: canonical token stream + comment/doc structure of a Lua text, for the formatter checks (C05–C07).
//!
//! Whitespace and line ends are dropped.  Only differences the active `LuaFormatConfig` documents are quotiented:
//!  * a trailing separator before the `}` of a table constructor (`trailing_comma` / `trailing_table_separator` have
//!    no "preserve" value, so every value of the option adds or removes it);
//!  * statement-terminating `;` unless `output.preserve_statement_semicolon` (empty statements `;` always: they are
//!    not "trailing semicolons on statements" and carry no code).  To keep this quotient from hiding a merge of
//!    two statements (`f();(g)()` → `f()(g)()`), a marker is emitted at the start of every statement;
//!  * the delimiters of short strings when `quote_style != Preserve` (the body is compared with `\"`/`\'` unescaped –
//!    the documented "minimal delimiter escaping");
//!  * the parentheses of a call whose only argument is a string literal or a table constructor when
//!    `single_arg_call_parens != Preserve`;
//!  * the spelling of line ends inside multi-line string tokens (`end_of_line`);
//!  * `;` vs `,` as table field separator ("spacing and separators normalized", examples_EN.md).
//! Comments: text with all whitespace deleted; doc comments additionally as a dump of node kinds and non-trivia
//! tokens per top-level doc item.
use emmylua_formatter::{LuaFormatConfig, QuoteStyle, SingleArgCallParens};
use emmylua_parser::{LuaKind, LuaParseErrorKind, LuaParser, LuaSyntaxKind, LuaSyntaxNode, LuaSyntaxTree, LuaTokenKind, ParserConfig};
use rowan::WalkEvent;

#[derive(Clone, Copy, Debug)]
pub struct Quot {
    pub stat_semis: bool,
    pub quotes: bool,
    pub call_parens: bool,
}

impl Quot {
    pub fn of(cfg: &LuaFormatConfig) -> Quot {
        Quot {
            stat_semis: !cfg.output.preserve_statement_semicolon,
            quotes: cfg.output.quote_style != QuoteStyle::Preserve,
            call_parens: cfg.output.single_arg_call_parens != SingleArgCallParens::Preserve,
        }
    }
}

#[derive(Clone, Debug, PartialEq, Eq)]
pub struct CTok {
    /// canonical text (kind-tagged for markers)
    pub text: String,
    /// byte offset in the text it came from
    pub off: usize,
    /// byte length in the text it came from (0 for statement markers)
    pub len: usize,
    /// kind of the parent node
    pub parent: LuaSyntaxKind,
    /// kind of the nearest enclosing statement
    pub stat: LuaSyntaxKind,
}

#[derive(Clone, Debug)]
pub struct CComment {
    pub off: usize,
    pub end: usize,
    /// text with all whitespace deleted
    pub nows: String,
    /// a doc error lies inside this comment: structure is not compared
    pub doc_err: bool,
    /// kind of the node that holds the comment
    pub parent: LuaSyntaxKind,
    /// one dump per top-level doc item (tag / description / stray token)
    pub items: Vec<(LuaSyntaxKind, String)>,
}

pub struct Canon {
    /// doc blocks for which the formatter's output may depend on HashMap iteration order (overlapping alignment
    /// groups): blocks with a `---|` continuation line or with two tags on one line
    pub risky_doc_blocks: usize,
    /// comment lines that start with four or more dashes followed by other text (`----x`): the formatter inserts a
    /// space after the third dash, which changes how the line parses
    pub dash_run_lines: usize,
    /// number of empty statements (a lone `;`)
    pub n_empty_stats: usize,
    /// number of comment lines that hold two doc-tag starts (`---@a x---@b y`); the formatter's output for such a
    /// block depends on HashMap iteration order (alignment groups overlap), i.e. it is not deterministic
    pub multi_tag_lines: usize,
    /// (start, end, holder group) of the statement around every comment that is not a direct child of a block
    pub inner_regions: Vec<(usize, usize, String)>,
    pub toks: Vec<CTok>,
    pub comments: Vec<CComment>,
    pub n_stats: usize,
    pub syntax_errors: usize,
    pub doc_errors: usize,
    pub first_syntax_error: Option<(usize, String)>,
}

pub fn parse(text: &str, level: u8) -> LuaSyntaxTree {
    LuaParser::parse(text, ParserConfig::with_level(crate::gens::util::level(level)))
}

pub fn is_stat(k: LuaSyntaxKind) -> bool {
    use LuaSyntaxKind::*;
    matches!(
        k,
        EmptyStat
            | LocalStat
            | LocalFuncStat
            | IfStat
            | WhileStat
            | DoStat
            | ForStat
            | ForRangeStat
            | RepeatStat
            | FuncStat
            | LabelStat
            | BreakStat
            | ContinueStat
            | ConstStat
            | ReturnStat
            | GotoStat
            | CallExprStat
            | AssignStat
            | GlobalStat
            | UnknownStat
    )
}

fn is_table(k: LuaSyntaxKind) -> bool {
    matches!(k, LuaSyntaxKind::TableArrayExpr | LuaSyntaxKind::TableObjectExpr | LuaSyntaxKind::TableEmptyExpr)
}

fn is_trivia(k: LuaTokenKind) -> bool {
    matches!(k, LuaTokenKind::TkWhitespace | LuaTokenKind::TkEndOfLine)
}

fn strip_ws(s: &str) -> String {
    s.chars().filter(|c| !c.is_whitespace()).collect()
}

/// body of a short string with escaped delimiters unescaped (`\"` → `"`, `\'` → `'`), every other escape kept
fn short_string_body(text: &str) -> Option<String> {
    let mut it = text.chars();
    let q = it.next()?;
    if q != '"' && q != '\'' {
        return None;
    }
    if text.len() < 2 || !text.ends_with(q) {
        return None;
    }
    let body = &text[1..text.len() - 1];
    let mut out = String::with_capacity(body.len());
    let mut cs = body.chars();
    while let Some(c) = cs.next() {
        if c == '\\' {
            match cs.next() {
                Some(n) if n == '"' || n == '\'' => out.push(n),
                Some(n) => {
                    out.push('\\');
                    out.push(n);
                }
                None => out.push('\\'),
            }
        } else {
            out.push(c);
        }
    }
    Some(out)
}

fn norm_eol(s: &str) -> String {
    if s.contains('\r') { s.replace("\r\n", "\n").replace('\r', "\n") } else { s.to_string() }
}

/// the call-argument list consists of exactly `(` one string-literal-or-table `)`
fn single_arg_parens(node: &LuaSyntaxNode) -> bool {
    if node.kind() != LuaKind::Syntax(LuaSyntaxKind::CallArgList) {
        return false;
    }
    let mut exprs = 0;
    let mut ok_kind = false;
    let mut parens = 0;
    for ch in node.children_with_tokens() {
        match ch {
            rowan::NodeOrToken::Token(t) => {
                let k = t.kind().to_token();
                if is_trivia(k) {
                    continue;
                }
                match k {
                    LuaTokenKind::TkLeftParen | LuaTokenKind::TkRightParen => parens += 1,
                    _ => return false,
                }
            }
            rowan::NodeOrToken::Node(n) => {
                let k = n.kind().to_syntax();
                if k == LuaSyntaxKind::Comment {
                    continue;
                }
                exprs += 1;
                ok_kind = is_table(k)
                    || (k == LuaSyntaxKind::LiteralExpr
                        && n.first_token().map(|t| matches!(t.kind().to_token(), LuaTokenKind::TkString | LuaTokenKind::TkLongString)).unwrap_or(false));
            }
        }
    }
    exprs == 1 && ok_kind && parens == 2
}

fn dump_doc_item(el: &rowan::NodeOrToken<LuaSyntaxNode, emmylua_parser::LuaSyntaxToken>) -> (LuaSyntaxKind, String) {
    // Line-prefix tokens (`--`, `---`, `---@`) carry no structure (their text is covered by the text comparison) and
    // description nodes are dumped without their boundaries: which item a free-text line attaches to changes when
    // blank lines are removed (`max_blank_lines`), the type/tag structure does not.
    // Free text (descriptions, unparsed trivia) is covered by the text comparison as well; which tag it attaches to
    // depends on blank lines, so it is left out of the structure dump.
    let skip_tok = |k: LuaTokenKind| {
        is_trivia(k) || matches!(k, LuaTokenKind::TkNormalStart | LuaTokenKind::TkDocContinue | LuaTokenKind::TkDocStart | LuaTokenKind::TkDocDetail | LuaTokenKind::TkDocTrivia)
    };
    match el {
        rowan::NodeOrToken::Token(t) => {
            let k = t.kind().to_token();
            if skip_tok(k) { (LuaSyntaxKind::None, String::new()) } else { (LuaSyntaxKind::None, format!(" {:?}:{}", k, strip_ws(t.text()))) }
        }
        rowan::NodeOrToken::Node(n) => {
            let mut s = String::new();
            for ev in n.preorder_with_tokens() {
                match ev {
                    WalkEvent::Enter(rowan::NodeOrToken::Node(x)) => {
                        if x.kind().to_syntax() != LuaSyntaxKind::DocDescription {
                            s.push('(');
                            s.push_str(&format!("{:?}", x.kind().to_syntax()));
                        }
                    }
                    WalkEvent::Leave(rowan::NodeOrToken::Node(x)) => {
                        if x.kind().to_syntax() != LuaSyntaxKind::DocDescription {
                            s.push(')')
                        }
                    }
                    WalkEvent::Enter(rowan::NodeOrToken::Token(t)) => {
                        let k = t.kind().to_token();
                        if skip_tok(k) {
                            continue;
                        }
                        let txt = strip_ws(t.text());
                        if txt.is_empty() {
                            continue;
                        }
                        s.push(' ');
                        s.push_str(&format!("{:?}:{}", k, txt));
                    }
                    _ => {}
                }
            }
            (n.kind().to_syntax(), s)
        }
    }
}

pub fn canon_tree(tree: &LuaSyntaxTree, q: Quot) -> Canon {
    let root = tree.get_red_root();
    let mut toks = vec![];
    let mut comments = vec![];
    let mut inner_regions = vec![];
    let mut multi_tag_lines = 0usize;
    let mut n_empty_stats = 0usize;
    let mut dash_run_lines = 0usize;
    let mut risky_doc_blocks = 0usize;
    let mut n_stats = 0usize;
    let mut syntax_errors = 0;
    let mut doc_errors = 0;
    let mut first_syntax_error = None;
    let mut doc_err_ranges = vec![];
    for e in tree.get_errors() {
        if e.kind == LuaParseErrorKind::SyntaxError {
            syntax_errors += 1;
            if first_syntax_error.is_none() {
                first_syntax_error = Some((usize::from(e.range.start()), e.message.clone()));
            }
        } else {
            doc_errors += 1;
            doc_err_ranges.push((usize::from(e.range.start()), usize::from(e.range.end())));
        }
    }
    let mut stat_stack: Vec<LuaSyntaxKind> = vec![];
    let mut skip_depth = 0usize; // inside a Comment node
    for ev in root.preorder_with_tokens() {
        match ev {
            WalkEvent::Enter(rowan::NodeOrToken::Node(n)) => {
                let k = n.kind().to_syntax();
                if skip_depth > 0 {
                    skip_depth += 1;
                    continue;
                }
                if k == LuaSyntaxKind::Comment {
                    skip_depth = 1;
                    let r = n.text_range();
                    let (s, e) = (usize::from(r.start()), usize::from(r.end()));
                    let doc_err = doc_err_ranges.iter().any(|(a, b)| *a <= e && s <= *b);
                    let items = n
                        .children_with_tokens()
                        .filter(|c| match c {
                            rowan::NodeOrToken::Token(t) => !is_trivia(t.kind().to_token()),
                            _ => true,
                        })
                        .map(|c| dump_doc_item(&c))
                        .collect();
                    for l in n.text().to_string().lines() {
                        let t = l.trim_start();
                        let dashes = t.chars().take_while(|c| *c == '-').count();
                        if dashes >= 4 && dashes < t.chars().count() {
                            dash_run_lines += 1;
                        }
                    }
                    let mut starts = 0;
                    let mut risky = false;
                    for el in n.descendants_with_tokens() {
                        if let rowan::NodeOrToken::Token(t) = el {
                            match t.kind().to_token() {
                                LuaTokenKind::TkEndOfLine => starts = 0,
                                LuaTokenKind::TkDocContinueOr => risky = true,
                                LuaTokenKind::TkDocStart | LuaTokenKind::TkDocLongStart => {
                                    starts += 1;
                                    if starts == 2 {
                                        multi_tag_lines += 1;
                                        risky = true;
                                    }
                                }
                                _ => {}
                            }
                        }
                    }
                    if risky {
                        risky_doc_blocks += 1;
                    }
                    let parent = n.parent().map(|p| p.kind().to_syntax()).unwrap_or(LuaSyntaxKind::None);
                    if matches!(holder_group(parent).as_str(), "stat-header" | "expr" | "table-field" | "name-or-attrib") {
                        let st = n.ancestors().find(|x| is_stat(x.kind().to_syntax())).map(|x| x.text_range()).unwrap_or(r);
                        inner_regions.push((usize::from(st.start()), usize::from(st.end()), holder_group(parent)));
                    }
                    comments.push(CComment { off: s, end: e, nows: strip_ws(&n.text().to_string()), doc_err, parent, items });
                    continue;
                }
                if is_stat(k) {
                    stat_stack.push(k);
                    if k == LuaSyntaxKind::EmptyStat {
                        n_empty_stats += 1;
                    }
                    if k != LuaSyntaxKind::EmptyStat {
                        n_stats += 1;
                        toks.push(CTok {
                            text: format!("<{:?}>", k),
                            off: usize::from(n.text_range().start()),
                            len: 0,
                            parent: n.parent().map(|p| p.kind().to_syntax()).unwrap_or(LuaSyntaxKind::None),
                            stat: k,
                        });
                    }
                }
            }
            WalkEvent::Leave(rowan::NodeOrToken::Node(n)) => {
                if skip_depth > 0 {
                    skip_depth -= 1;
                    continue;
                }
                if is_stat(n.kind().to_syntax()) {
                    stat_stack.pop();
                }
            }
            WalkEvent::Enter(rowan::NodeOrToken::Token(t)) => {
                if skip_depth > 0 {
                    continue;
                }
                let k = t.kind().to_token();
                if is_trivia(k) {
                    continue;
                }
                let parent = t.parent();
                let pk = parent.as_ref().map(|p| p.kind().to_syntax()).unwrap_or(LuaSyntaxKind::None);
                let stat = stat_stack.last().copied().unwrap_or(LuaSyntaxKind::None);
                let off = usize::from(t.text_range().start());
                let mut text = t.text().to_string();
                match k {
                    LuaTokenKind::TkSemicolon => {
                        if pk == LuaSyntaxKind::EmptyStat {
                            continue;
                        }
                        if is_stat(pk) && q.stat_semis {
                            continue;
                        }
                        if is_table(pk) {
                            // trailing separator?
                            if next_non_trivia_is_rbrace(&t) {
                                continue;
                            }
                            // "separators normalized" (docs/emmylua_formatter/examples_EN.md): `;` and `,` are the same separator
                            text = ",".to_string();
                        }
                    }
                    LuaTokenKind::TkComma => {
                        if is_table(pk) && next_non_trivia_is_rbrace(&t) {
                            continue;
                        }
                    }
                    LuaTokenKind::TkString => {
                        text = norm_eol(&text);
                        if q.quotes {
                            if let Some(b) = short_string_body(&text) {
                                text = format!("S<{b}>");
                            }
                        }
                    }
                    LuaTokenKind::TkLongString => {
                        text = norm_eol(&text);
                    }
                    LuaTokenKind::TkShebang => {
                        text = text.trim_end().to_string();
                    }
                    LuaTokenKind::TkLeftParen | LuaTokenKind::TkRightParen => {
                        if q.call_parens && parent.as_ref().map(single_arg_parens).unwrap_or(false) {
                            continue;
                        }
                    }
                    _ => {}
                }
                toks.push(CTok { text, off, len: t.text().len(), parent: pk, stat });
            }
            _ => {}
        }
    }
    Canon { risky_doc_blocks, dash_run_lines, n_empty_stats, multi_tag_lines, inner_regions, toks, comments, n_stats, syntax_errors, doc_errors, first_syntax_error }
}

fn next_non_trivia_is_rbrace(t: &emmylua_parser::LuaSyntaxToken) -> bool {
    let mut n = t.next_sibling_or_token();
    while let Some(el) = n {
        match &el {
            rowan::NodeOrToken::Token(x) => {
                let k = x.kind().to_token();
                if is_trivia(k) {
                    n = el.next_sibling_or_token();
                    continue;
                }
                return k == LuaTokenKind::TkRightBrace;
            }
            rowan::NodeOrToken::Node(x) => {
                if x.kind().to_syntax() == LuaSyntaxKind::Comment {
                    n = el.next_sibling_or_token();
                    continue;
                }
                return false;
            }
        }
    }
    false
}

/// Which clause failed and a mechanically derived construct key.
#[derive(Debug, Clone)]
pub struct Diff {
    /// input-side byte offset of the difference
    pub loc: usize,
    pub clause: &'static str,
    pub sig: String,
    pub msg: String,
}

fn ctx(text: &str, off: usize) -> String {
    let mut a = off.saturating_sub(40).min(text.len());
    while !text.is_char_boundary(a) {
        a -= 1;
    }
    let mut b = (off + 60).min(text.len());
    while !text.is_char_boundary(b) {
        b += 1;
    }
    format!("{:?}", &text[a..b])
}

fn tok_class(t: &str) -> String {
    // coarse class of a canonical token for signatures
    if t.starts_with('<') && t.ends_with('>') && t.len() > 2 && t.as_bytes()[1].is_ascii_uppercase() {
        return t.to_string();
    }
    let c = t.chars().next().unwrap_or(' ');
    if t.starts_with("S<") || c == '"' || c == '\'' {
        "string".into()
    } else if t.starts_with("[[") || t.starts_with("[=") {
        "longstring".into()
    } else if c.is_ascii_digit() || (c == '.' && t.len() > 1 && t.as_bytes()[1].is_ascii_digit()) {
        "number".into()
    } else if c.is_alphabetic() || c == '_' {
        const KW: &[&str] = &[
            "and", "break", "do", "else", "elseif", "end", "false", "for", "function", "goto", "if", "in", "local", "nil", "not", "or", "repeat", "return", "then",
            "true", "until", "while", "global",
        ];
        if KW.contains(&t) { t.to_string() } else { "name".into() }
    } else {
        t.to_string()
    }
}

fn parent_group(t: &CTok) -> String {
    if t.text == ";" || is_marker(t) {
        return "Stat".into();
    }
    let n = format!("{:?}", t.parent);
    if is_table(t.parent) {
        "Table".into()
    } else if n.ends_with("CallExpr") {
        "CallExpr".into()
    } else {
        n
    }
}

fn is_marker(t: &CTok) -> bool {
    t.text.len() > 2 && t.text.starts_with('<') && t.text.ends_with('>') && t.text.as_bytes()[1].is_ascii_uppercase()
}

#[derive(Clone, Copy, Debug, PartialEq, Eq)]
pub enum Op {
    Match(usize, usize),
    /// a[i] has no counterpart
    Del(usize),
    /// b[j] has no counterpart; i = position in a where it was inserted
    Ins(usize, usize),
}

/// Edit script between two sequences (longest common subsequence; common prefix/suffix trimmed first).
pub fn lcs_ops<T: PartialEq>(a: &[T], b: &[T]) -> Vec<Op> {
    let mut pre = 0;
    while pre < a.len() && pre < b.len() && a[pre] == b[pre] {
        pre += 1;
    }
    let mut suf = 0;
    while suf < a.len() - pre && suf < b.len() - pre && a[a.len() - 1 - suf] == b[b.len() - 1 - suf] {
        suf += 1;
    }
    let (ma, mb) = (&a[pre..a.len() - suf], &b[pre..b.len() - suf]);
    let mut ops: Vec<Op> = (0..pre).map(|k| Op::Match(k, k)).collect();
    let (n, m) = (ma.len(), mb.len());
    if n * m > 6_000_000 {
        // too large for the table: everything in the middle counts as replaced
        ops.extend((0..n).map(|i| Op::Del(pre + i)));
        ops.extend((0..m).map(|j| Op::Ins(pre + n, pre + j)));
    } else {
        let w = m + 1;
        let mut l = vec![0u32; (n + 1) * w];
        for i in (0..n).rev() {
            for j in (0..m).rev() {
                l[i * w + j] = if ma[i] == mb[j] { l[(i + 1) * w + j + 1] + 1 } else { l[(i + 1) * w + j].max(l[i * w + j + 1]) };
            }
        }
        let (mut i, mut j) = (0, 0);
        while i < n || j < m {
            if i < n && j < m && ma[i] == mb[j] {
                ops.push(Op::Match(pre + i, pre + j));
                i += 1;
                j += 1;
            } else if j >= m || (i < n && l[(i + 1) * w + j] >= l[i * w + j + 1]) {
                ops.push(Op::Del(pre + i));
                i += 1;
            } else {
                ops.push(Op::Ins(pre + i, pre + j));
                j += 1;
            }
        }
    }
    for k in 0..suf {
        ops.push(Op::Match(a.len() - suf + k, b.len() - suf + k));
    }
    ops
}

/// maximal runs of non-matching ops: (deleted indices of a, inserted indices of b, position in a, position in b)
fn edit_runs(ops: &[Op]) -> Vec<(Vec<usize>, Vec<usize>, usize, usize)> {
    let mut runs = vec![];
    let mut cur: Option<(Vec<usize>, Vec<usize>, usize, usize)> = None;
    let (mut na, mut nb) = (0usize, 0usize);
    for op in ops {
        match *op {
            Op::Match(i, j) => {
                if let Some(r) = cur.take() {
                    runs.push(r);
                }
                na = i + 1;
                nb = j + 1;
            }
            Op::Del(i) => {
                cur.get_or_insert((vec![], vec![], na, nb)).0.push(i);
                na = i + 1;
            }
            Op::Ins(_, j) => {
                cur.get_or_insert((vec![], vec![], na, nb)).1.push(j);
                nb = j + 1;
            }
        }
    }
    if let Some(r) = cur.take() {
        runs.push(r);
    }
    runs
}

/// the inner-comment region (see `Canon::inner_regions`) an input offset falls into; regions reach to the end of the next line
pub fn inner_comment_at(a_text: &str, a: &Canon, off: usize) -> Option<String> {
    for (s, e, h) in &a.inner_regions {
        let mut end = *e;
        for _ in 0..2 {
            match a_text[end.min(a_text.len())..].find('\n') {
                Some(k) => end = end + k + 1,
                None => end = a_text.len(),
            }
        }
        if *s <= off && off <= end {
            return Some(h.clone());
        }
    }
    None
}

/// Token streams (clause B; with `markers == false` and an error offset usable when the output does not parse:
/// clause A, where the edit nearest before the parse error is named instead of the first one).  Signature keys:
///  * `retok:x+y`   the same characters, tokenised differently (tokens glued together / split)
///  * `lost:x@P`    input tokens missing from the output (x = class of the first one, P = its parent)
///  * `gained:x@P`  the output has extra tokens
///  * `changed:x->y@P`
pub fn compare_tokens(clause: &'static str, a_text: &str, a: &Canon, b_text: &str, b: &Canon, cfg: &LuaFormatConfig, markers: bool, err_off: Option<usize>) -> Option<Diff> {
    let fa: Vec<&CTok> = a.toks.iter().filter(|t| markers || !is_marker(t)).collect();
    let fb: Vec<&CTok> = b.toks.iter().filter(|t| markers || !is_marker(t)).collect();
    let ta: Vec<&str> = fa.iter().map(|t| t.text.as_str()).collect();
    let tb: Vec<&str> = fb.iter().map(|t| t.text.as_str()).collect();
    if ta == tb {
        return None;
    }
    type Run = (Vec<usize>, Vec<usize>, usize, usize);
    let runs: Vec<Run> = edit_runs(&lcs_ops(&ta, &tb));
    let out_off = |r: &Run| -> usize { fb.get(r.3).map(|t| t.off).unwrap_or(b_text.len()) };
    let cat = |v: &[&CTok]| -> String { v.iter().map(|t| t.text.as_str()).collect() };
    let is_long = |t: &str| t.starts_with("[[") || t.starts_with("[=");
    // the whole difference is about `;` (moved, dropped or added statement terminators)
    let only_semicolons = {
        let strip = |v: &[&str]| -> Vec<String> { v.iter().filter(|t| **t != ";").map(|t| t.to_string()).collect() };
        strip(&ta) == strip(&tb)
    };

    // (priority, family or generic key, is_family, input offset) of one edit run
    let classify = |run: &Run| -> (usize, String, bool, usize) {
        // neighbourhood: following runs separated by at most 2 matched tokens, with the tokens in between
        let (mut na, mut nb) = (run.2 + run.0.len(), run.3 + run.1.len());
        let (sa0, sb0) = (run.2, run.3);
        for r in runs.iter() {
            if r.2 >= na && r.2 - na <= 2 && r.3 >= nb && r.3 - nb == r.2 - na && (r.2 > run.2 || r.3 > run.3) {
                na = r.2 + r.0.len();
                nb = r.3 + r.1.len();
            }
        }
        let hood_a: Vec<&CTok> = fa[sa0..na.min(fa.len())].iter().copied().filter(|t| !is_marker(t)).collect();
        let hood_b: Vec<&CTok> = fb[sb0..nb.min(fb.len())].iter().copied().filter(|t| !is_marker(t)).collect();
        let dels: Vec<&CTok> = run.0.iter().map(|i| fa[*i]).filter(|t| !is_marker(t)).collect();
        let all_dels: Vec<&CTok> = run.0.iter().map(|i| fa[*i]).collect();
        let all_inss: Vec<&CTok> = run.1.iter().map(|j| fb[*j]).collect();
        let anchor = fa.get(run.2).or(fa.last()).copied();
        let loc = all_dels.first().or(anchor.as_ref()).map(|t| t.off).unwrap_or(0);
        // input tokens around the edit (3 either side)
        let near: Vec<&CTok> = fa[sa0.saturating_sub(3)..(na + 3).min(fa.len())].iter().copied().filter(|t| !is_marker(t)).collect();
        let pair = |x: &dyn Fn(&str) -> bool, y: &dyn Fn(&str) -> bool| near.windows(2).any(|w| x(&w[0].text) && y(&w[1].text));
        let touches = |s: &str| all_dels.iter().chain(all_inss.iter()).chain(hood_a.iter()).chain(hood_b.iter()).any(|t| t.text == s);
        let edit_is = |s: &str| all_dels.iter().chain(all_inss.iter()).filter(|t| !is_marker(t)).all(|t| t.text == s);
        // code that ended up inside a comment of the output (a line comment not followed by a line break)
        let swallowed = !dels.is_empty() && {
            let d0 = strip_ws(&dels[0].text);
            b.comments.iter().any(|cb| {
                if a.comments.iter().any(|c| c.nows == cb.nows) {
                    return false;
                }
                match a.comments.iter().filter(|c| !c.nows.is_empty() && cb.nows.len() > c.nows.len() && cb.nows.starts_with(&c.nows)).max_by_key(|c| c.nows.len()) {
                    Some(ca) => {
                        let growth = &cb.nows[ca.nows.len()..];
                        growth.starts_with(&d0) || d0.starts_with(growth)
                    }
                    None => false,
                }
            })
        };
        let fam = |p: usize, s: &str| (p, s.to_string(), true, loc);
        // a multi-line string token whose text changed only in whitespace (its continuation lines were re-indented)
        if !dels.is_empty() && dels.len() == all_inss.len() && {
            let stringish = |t: &str| is_long(t) || t.starts_with('"') || t.starts_with('\'') || t.starts_with("S<");
            dels.iter().zip(all_inss.iter()).all(|(x, y)| stringish(&x.text) && stringish(&y.text) && strip_ws(&x.text) == strip_ws(&y.text)) && dels.iter().any(|x| x.text.contains('\n'))
        } {
            return fam(0, "tokens:multiline-string-content-reindented");
        }
        if inner_comment_at(a_text, a, loc).is_some() {
            // a statement with a comment between its tokens (a construct whose renderer has no slot for a comment child)
            return fam(0, "inner-comment");
        }
        if swallowed {
            return fam(1, "tokens:code-swallowed-by-comment");
        }
        if !cfg.spacing.space_around_concat_operator && near.iter().any(|t| t.text == "..") {
            return fam(2, "tokens:concat-operator-glued(space_around_concat_operator=false)");
        }
        if !cfg.spacing.space_around_math_operator && pair(&|x| x == "-", &|y| y == "-") {
            return fam(3, "tokens:minus-minus-glued(space_around_math_operator=false)");
        }
        if !cfg.spacing.space_around_assign_operator && pair(&|x| x == ">", &|y| y == "=") {
            return fam(4, "tokens:attrib-close-assign-glued(space_around_assign_operator=false)");
        }
        if dels.len() == 1 && all_inss.len() == 1 && all_inss[0].text == "=" && dels[0].parent == LuaSyntaxKind::AssignStat && dels[0].text.len() >= 2 && dels[0].text.ends_with('=') {
            return fam(5, "tokens:compound-assign-operator-replaced-by-assign");
        }
        if dels.iter().any(|t| t.text == "[" && t.parent == LuaSyntaxKind::TableFieldAssign) && !all_inss.iter().any(|t| t.text == "[") {
            return fam(5, "tokens:table-bracket-key-dropped");
        }
        if pair(&|x| x == "[", &|y| is_long(y)) {
            return fam(6, "tokens:bracket-longstring-glued");
        }
        if near.iter().any(|t| t.text == "->") && near.iter().any(|t| t.text == "do") {
            return fam(7, "tokens:lambda-do-body-glued(LuaJITExt)");
        }
        if pair(&|x| x == "global", &|y| y == "function") {
            return fam(7, "tokens:global-function-glued");
        }
        if all_dels.iter().any(|t| is_marker(t)) && !all_inss.iter().any(|t| is_marker(t)) && all_dels.iter().filter(|t| !is_marker(t)).all(|t| t.text == ";" || t.text == "(") {
            return fam(8, "tokens:statement-boundary-lost");
        }
        if cfg.output.preserve_statement_semicolon && (only_semicolons || edit_is(";")) {
            return fam(9, "tokens:semicolon(preserve_statement_semicolon=true)");
        }
        if cfg.output.single_arg_call_parens != SingleArgCallParens::Preserve
            && near.iter().any(|t| t.parent == LuaSyntaxKind::CallArgList || is_long(&t.text) || t.text.starts_with('"') || t.text.starts_with('\'') || t.text.starts_with("S<"))
        {
            return (10, format!("tokens:call-parens({:?})", cfg.output.single_arg_call_parens), true, loc);
        }
        if cfg.output.preserve_statement_semicolon && touches(";") {
            return fam(11, "tokens:semicolon(preserve_statement_semicolon=true)");
        }
        // generic key
        let key = if all_inss.iter().all(|t| is_marker(t)) && !all_inss.is_empty() && all_dels.is_empty() {
            "statement-boundary-gained".to_string()
        } else if !hood_a.is_empty() && !hood_b.is_empty() && cat(&hood_a) == cat(&hood_b) {
            format!("retok:{}", hood_a.iter().take(2).map(|t| tok_class(&t.text)).collect::<Vec<_>>().join("+"))
        } else if let Some(d) = all_dels.first() {
            match all_inss.first() {
                Some(i) => format!("changed:{}->{}@{}", tok_class(&d.text), tok_class(&i.text), parent_group(d)),
                None => format!("lost:{}@{}", tok_class(&d.text), parent_group(d)),
            }
        } else if let Some(i) = all_inss.first() {
            let holder = if i.text == ";" || is_marker(i) { "Stat".to_string() } else { anchor.map(parent_group).unwrap_or_default() };
            format!("gained:{}@{}", tok_class(&i.text), holder)
        } else {
            "none".to_string()
        };
        (99, format!("tokens:{key}"), false, loc)
    };

    // the run to describe: the first one, or (output unparsable) the one closest to the parse error
    let chosen: &Run = match err_off {
        Some(e) => runs.iter().min_by_key(|r| {
            let o = out_off(r);
            if o <= e + 1 { e + 1 - o } else { (o - e) * 4 }
        }),
        None => runs.first(),
    }?;
    // the strongest family among all runs explains the case (several defects often interact); generic key otherwise
    let best = runs.iter().map(|r| (classify(r), r)).filter(|(c, _)| c.2).min_by_key(|(c, _)| c.0);
    let ((_, sig, _, loc), run) = match best {
        Some(x) => x,
        None => (classify(chosen), chosen),
    };
    let all_dels: Vec<&CTok> = run.0.iter().map(|i| fa[*i]).collect();
    let all_inss: Vec<&CTok> = run.1.iter().map(|j| fb[*j]).collect();
    let anchor = fa.get(run.2).or(fa.last()).copied();
    let show = |v: &[&CTok]| -> String { v.iter().take(6).map(|t| t.text.as_str()).collect::<Vec<_>>().join(" ") };
    Some(Diff {
        loc,
        clause,
        sig,
        msg: format!(
            "token streams differ ({} vs {} tokens, {} edit run(s)): input has [{}] in {:?} near {}, output has [{}] near {}",
            fa.len(),
            fb.len(),
            runs.len(),
            show(&all_dels),
            all_dels.first().or(anchor.as_ref()).map(|t| t.parent),
            all_dels.first().or(anchor.as_ref()).map(|t| ctx(a_text, t.off)).unwrap_or_default(),
            show(&all_inss),
            all_inss.first().map(|t| ctx(b_text, t.off)).unwrap_or_else(|| anchor.map(|t| format!("(input position) {}", ctx(a_text, t.off))).unwrap_or_default())
        ),
    })
}

/// index of the chunk containing position `pos` of the concatenation
fn chunk_at(lens: impl Iterator<Item = usize>, pos: usize) -> Option<usize> {
    let mut acc = 0usize;
    let mut last = None;
    for (k, l) in lens.enumerate() {
        last = Some(k);
        if pos < acc + l {
            return Some(k);
        }
        acc += l;
    }
    last
}

/// kind of one comment line, from its own (whitespace-free) text
fn line_kind(l: &str) -> String {
    const TAGS: &[&str] = &[
        "return_overload", "return_cast", "return", "class", "enum", "interface", "alias", "field", "type", "param", "generic", "see", "deprecated", "cast",
        "overload", "async", "public", "private", "protected", "package", "meta", "diagnostic", "version", "as", "nodiscard", "operator", "module",
        "mapping", "namespace", "using", "source", "readonly", "language", "attribute", "export", "schema",
    ];
    let t = l.trim_start_matches('-');
    if l.starts_with("--[[") || l.starts_with("--[=") {
        "Long".into()
    } else if let Some(rest) = t.strip_prefix('@') {
        match TAGS.iter().find(|x| rest.starts_with(**x)) {
            Some(x) => format!("@{x}"),
            None => "@other".into(),
        }
    } else if t.starts_with('|') {
        "|".into()
    } else {
        "text".into()
    }
}

/// signature part for a lost/gained comment line: inside constructs without comment slots the line's kind is irrelevant
fn lost_key(line: &str, parent: LuaSyntaxKind) -> String {
    let h = holder_group(parent);
    if matches!(h.as_str(), "stat-header" | "expr" | "table-field" | "name-or-attrib") {
        format!("@{h}")
    } else {
        format!("@{h}")
    }
}

/// B: token streams; C: comments.  `a` is the original, `b` the formatted/spliced text.
pub fn compare(a_text: &str, a: &Canon, b_text: &str, b: &Canon, cfg: &LuaFormatConfig) -> Option<Diff> {
    if let Some(d) = compare_tokens("B", a_text, a, b_text, b, cfg, true, None) {
        return Some(d);
    }
    // C: comment text line by line (robust against comment nodes merging/splitting when blank lines change)
    let lines = |text: &str, cs: &[CComment]| -> Vec<(usize, String)> {
        let mut v = vec![];
        for (k, c) in cs.iter().enumerate() {
            for l in text[c.off..c.end].lines() {
                let n = strip_ws(l);
                if !n.is_empty() {
                    v.push((k, n));
                }
            }
        }
        v
    };
    let (la, lb) = (lines(a_text, &a.comments), lines(b_text, &b.comments));
    let sa: Vec<&str> = la.iter().map(|x| x.1.as_str()).collect();
    let sb: Vec<&str> = lb.iter().map(|x| x.1.as_str()).collect();
    if sa.concat() != sb.concat() {
        let runs = edit_runs(&lcs_ops(&sa, &sb));
        if let Some(run) = runs.first() {
            // families: malformed doc block; comment inside a construct without comment slot (or right after such a
            // statement); a line holding a second doc prefix; an aligned group of equal tags; duplicated comment
            let family = |c: &CComment, off: usize, line: &str| -> Option<String> {
                if c.doc_err {
                    return Some("C:malformed-doc".to_string());
                }
                if a.multi_tag_lines > 0 {
                    return Some("C:doc-line-with-second-comment-prefix".to_string());
                }
                if a.dash_run_lines > 0 {
                    return Some("C:dash-run-line-respaced".to_string());
                }
                if matches!(holder_group(c.parent).as_str(), "stat-header" | "expr" | "table-field" | "name-or-attrib") || inner_comment_at(a_text, a, off).is_some() {
                    return Some("inner-comment".to_string());
                }
                let body = line.get(3..).unwrap_or("");
                if body.contains("---@") || body.contains("---|") || body.contains("--@") || (line.starts_with("---") && body.contains("---")) {
                    return Some("C:doc-line-with-second-comment-prefix".to_string());
                }
                None
            };
            let aligned_group = |k: usize| -> Option<String> {
                // the line is a tag line whose neighbour line (in the same comment) carries the same tag
                let kind = line_kind(sa[k]);
                if !kind.starts_with('@') && kind != "|" {
                    return None;
                }
                let same = |j: usize| la[j].0 == la[k].0 && line_kind(sa[j]) == kind;
                if (k > 0 && same(k - 1)) || (k + 1 < sa.len() && same(k + 1)) { Some(format!("C:aligned-doc-tags:{kind}")) } else { None }
            };
            if let (Some(i), None) = (run.0.first(), run.1.first()) {
                let c = &a.comments[la[*i].0];
                return Some(Diff {
                    loc: c.off,
                    clause: "C",
                    sig: family(c, c.off, sa[*i]).unwrap_or_else(|| format!("C:comment-lost{}", lost_key(sa[*i], c.parent))),
                    msg: format!("{} comment line(s) missing from the output, first {:?} (held by {:?}) near {}", run.0.len(), crate::engine::one_line(sa[*i], 80), c.parent, ctx(a_text, c.off)),
                });
            }
            if let (None, Some(j)) = (run.0.first(), run.1.first()) {
                let c = &b.comments[lb[*j].0];
                // input-side neighbour: the comment with the same index
                let ca = a.comments.get(lb[*j].0.min(a.comments.len().saturating_sub(1)));
                return Some(Diff {
                    loc: ca.map(|x| x.off).unwrap_or(0),
                    clause: "C",
                    sig: ca.and_then(|x| family(x, x.off, "")).unwrap_or_else(|| {
                        if sa.iter().any(|l| *l == sb[*j]) { { let _ = c; "C:comment-duplicated".to_string() } } else { format!("C:comment-gained{}", lost_key(sb[*j], c.parent)) }
                    }),
                    msg: format!("the output has {} comment line(s) the input did not have, first {:?} near {}", run.1.len(), crate::engine::one_line(sb[*j], 80), ctx(b_text, c.off)),
                });
            }
            if let (Some(i), Some(j)) = (run.0.first(), run.1.first()) {
                // changed line(s): what was lost / gained inside
                let xa: String = run.0.iter().map(|k| sa[*k]).collect();
                let xb: String = run.1.iter().map(|k| sb[*k]).collect();
                if xa != xb {
                    let (va, vb): (Vec<char>, Vec<char>) = (xa.chars().collect(), xb.chars().collect());
                    let pre = va.iter().zip(vb.iter()).take_while(|(x, y)| x == y).count();
                    let max_suf = va.len().min(vb.len()) - pre;
                    let suf = va.iter().rev().zip(vb.iter().rev()).take(max_suf).take_while(|(x, y)| x == y).count();
                    let removed: String = va[pre..va.len() - suf].iter().collect();
                    let inserted: String = vb[pre..vb.len() - suf].iter().collect();
                    let ca = &a.comments[la[*i].0];
                    let cb = &b.comments[lb[*j].0];
                    return Some(Diff {
                        loc: ca.off,
                        clause: "C",
                        sig: family(ca, ca.off, sa[*i]).unwrap_or_else(|| {
                            if removed.is_empty() && inserted.chars().all(|c| c == ';') {
                                "C:comment-swallowed-semicolon".to_string()
                            } else if removed.is_empty() && xb == format!("{xa}{xa}") {
                                "C:comment-duplicated".to_string()
                            } else if line_kind(sa[*i]).starts_with('@') || line_kind(sa[*i]) == "|" {
                                // one family per doc tag: the re-rendering of that tag's line loses/duplicates text
                                let _ = aligned_group(*i);
                                format!("C:doc-tag-line:{}", line_kind(sa[*i]))
                            } else {
                                format!("C:comment-text:{}@{}", line_kind(sa[*i]), holder_group(ca.parent))
                            }
                        }),
                        msg: format!(
                            "comment text differs (whitespace ignored): lost {:?}, gained {:?}; input line {:?} near {}, output line {:?} near {}",
                            crate::engine::one_line(&removed, 80),
                            crate::engine::one_line(&inserted, 80),
                            crate::engine::one_line(sa[*i], 120),
                            ctx(a_text, ca.off),
                            crate::engine::one_line(sb[*j], 120),
                            ctx(b_text, cb.off)
                        ),
                    });
                }
            }
        }
        // the lines differ only in how the text is cut into lines: not a text change
    }
    // Which free line belongs to which block changes when comments are regrouped (blank lines removed, a trailing
    // comment moved next to a doc block): the structure is compared only when the blocks correspond one to one.
    if a.comments.len() != b.comments.len() || a.comments.iter().zip(b.comments.iter()).any(|(x, y)| x.nows != y.nows) {
        return None;
    }
    // C: doc structure.  Error recovery decides the shape of a broken doc block: compared only when both sides are clean.
    if a.doc_errors > 0 || b.doc_errors > 0 {
        if a.doc_errors == 0 {
            let c = b.comments.iter().find(|c| c.doc_err);
            return Some(Diff {
                loc: a_text.len(),
                clause: "C",
                sig: if a.dash_run_lines > 0 { "C:dash-run-line-respaced".to_string() } else { format!("C:doc-error-introduced:{}", c.map(comment_kind).unwrap_or_default()) },
                msg: format!("output has a doc-comment parse error the input did not have, near {}", c.map(|c| ctx(b_text, c.off)).unwrap_or_default()),
            });
        }
        return None;
    }
    // Which free line belongs to which block changes when comments are regrouped (blank lines removed, a trailing
    // comment moved next to a doc block): the structure is compared only when the blocks correspond one to one.
    if a.comments.len() != b.comments.len() || a.comments.iter().zip(b.comments.iter()).any(|(x, y)| x.nows != y.nows) {
        return None;
    }
    let fa: Vec<(&CComment, &(LuaSyntaxKind, String))> = a.comments.iter().flat_map(|c| c.items.iter().map(move |i| (c, i))).collect();
    let fb: Vec<(&CComment, &(LuaSyntaxKind, String))> = b.comments.iter().flat_map(|c| c.items.iter().map(move |i| (c, i))).collect();
    let da: String = fa.iter().map(|x| x.1.1.as_str()).collect();
    let db: String = fb.iter().map(|x| x.1.1.as_str()).collect();
    if da != db {
        let common = da.bytes().zip(db.bytes()).take_while(|(x, y)| x == y).count();
        let xa = chunk_at(fa.iter().map(|x| x.1.1.len()), common).map(|i| fa[i]);
        let xb = chunk_at(fb.iter().map(|x| x.1.1.len()), common).map(|i| fb[i]);
        let kind = xa.map(|x| format!("{:?}", x.1.0)).unwrap_or_else(|| "EOF".into());
        let kindb = xb.map(|x| format!("{:?}", x.1.0)).unwrap_or_else(|| "EOF".into());
        return Some(Diff {
            loc: xa.map(|x| x.0.off).unwrap_or(0),
            clause: "C",
            sig: if a.dash_run_lines > 0 {
                "C:dash-run-line-respaced".to_string()
            } else if !cfg.spacing.space_around_math_operator && (da.contains("TkMinus") || da.contains("TkPlus")) {
                "C:doc-type-operator-respaced(space_around_math_operator=false)".to_string()
            } else {
                format!("C:doc-structure:{kind}")
            },
            msg: format!(
                "a doc comment parses differently: input item {} near {}; output item {} near {}",
                xa.map(|x| x.1.1.as_str()).unwrap_or(""),
                xa.map(|x| ctx(a_text, x.0.off)).unwrap_or_default(),
                xb.map(|x| x.1.1.as_str()).unwrap_or(""),
                xb.map(|x| ctx(b_text, x.0.off)).unwrap_or_default()
            ),
        });
    }
    None
}

/// Group of the node kind holding a comment.  Positions the formatter has comment slots for (blocks, tables,
/// argument and parameter lists) keep their own kind; comments between the tokens of a statement header, of an
/// expression, of a name/attribute or of a table field are grouped (one systemic cause each: the renderer of that
/// construct has no slot for a comment child).
pub fn holder_group(k: LuaSyntaxKind) -> String {
    use LuaSyntaxKind::*;
    if is_stat(k) || matches!(k, ElseIfClauseStat | ElseClauseStat) {
        return "stat-header".into();
    }
    if matches!(k, TableFieldAssign | TableFieldValue) {
        return "table-field".into();
    }
    if matches!(k, LocalName | ParamName | Attribute) {
        return "name-or-attrib".into();
    }
    let n = format!("{:?}", k);
    if n.ends_with("Expr") && !is_table(k) {
        return "expr".into();
    }
    n
}

/// coarse class of a lost/gained piece of comment text, for signatures
fn seg_class(s: &str) -> String {
    if s.is_empty() {
        return String::new();
    }
    let n = s.chars().count();
    if n <= 6 && !s.chars().any(|c| c.is_alphanumeric()) {
        return s.to_string();
    }
    if s.starts_with("---@") || s.starts_with("--@") || s.starts_with('@') {
        return "@tag...".into();
    }
    if s.chars().all(|c| c.is_alphanumeric() || c == '_') {
        return "word".into();
    }
    if s.starts_with("--") {
        return "comment...".into();
    }
    "text".into()
}

/// kind label of a comment: its first doc-tag kind, or Plain / Long / Description
pub fn comment_kind(c: &CComment) -> String {
    for (k, _) in &c.items {
        if *k != LuaSyntaxKind::None && *k != LuaSyntaxKind::DocDescription {
            return format!("{:?}", k);
        }
    }
    if c.nows.starts_with("--[") {
        "Long".into()
    } else if c.items.iter().any(|(k, _)| *k == LuaSyntaxKind::DocDescription) {
        "Description".into()
    } else {
        "Plain".into()
    }
}

/// kind of the innermost node (preferring comment/doc-tag and statement kinds) at a byte offset
pub fn construct_at(tree: &LuaSyntaxTree, off: usize) -> String {
    let root = tree.get_red_root();
    let len = usize::from(root.text_range().end());
    if len == 0 {
        return "Empty".into();
    }
    let off = off.min(len.saturating_sub(1));
    let tok = match root.token_at_offset(rowan::TextSize::new(off as u32)) {
        rowan::TokenAtOffset::None => return "None".into(),
        rowan::TokenAtOffset::Single(t) => t,
        rowan::TokenAtOffset::Between(_, r) => r,
    };
    let mut inner = None;
    let mut node = tok.parent();
    // a trivia token directly under a block: attribute to the next sibling construct
    if is_trivia(tok.kind().to_token()) {
        let mut n = tok.next_sibling_or_token();
        while let Some(el) = n {
            match &el {
                rowan::NodeOrToken::Node(x) => {
                    node = Some(x.clone());
                    break;
                }
                rowan::NodeOrToken::Token(x) if !is_trivia(x.kind().to_token()) => break,
                _ => n = el.next_sibling_or_token(),
            }
        }
    }
    let mut in_comment = false;
    let mut tag = None;
    let mut stat = None;
    let mut cur = node;
    while let Some(n) = cur {
        let k = n.kind().to_syntax();
        if inner.is_none() && k != LuaSyntaxKind::Block && k != LuaSyntaxKind::Chunk {
            inner = Some(k);
        }
        if k == LuaSyntaxKind::Comment {
            in_comment = true;
        }
        if format!("{:?}", k).starts_with("DocTag") || k == LuaSyntaxKind::DocDescription {
            tag = Some(k);
        }
        if stat.is_none() && is_stat(k) {
            stat = Some(k);
        }
        cur = n.parent();
    }
    if in_comment {
        match tag {
            Some(t) => format!("Comment/{:?}", t),
            None => "Comment".into(),
        }
    } else {
        match (inner, stat) {
            (Some(i), Some(s)) if i != s => format!("{:?}/{:?}", s, i),
            (Some(i), _) => format!("{:?}", i),
            (None, Some(s)) => format!("{:?}", s),
            _ => "Chunk".into(),
        }
    }
}
