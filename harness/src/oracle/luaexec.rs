//! `luars` (Lua 5.5) wrapper: sandboxed execution with an instruction limit, opaque-condition globals
//! and a `__probe(id, value)` recorder.
use luars::{Lua, LuaApi, LuaResult, LuaSandboxApi, LuaState, LuaValue, SafeOption, SandboxConfig, Stdlib};
use std::cell::RefCell;

thread_local! {
    static EVENTS: RefCell<Vec<(i64, &'static str)>> = const { RefCell::new(Vec::new()) };
}

fn probe_fn(l: &mut LuaState) -> LuaResult<usize> {
    let a = l.get_args();
    let id = a.first().and_then(|v| v.as_integer()).unwrap_or(-1);
    let ty = a.get(1).map(|v| v.type_name()).unwrap_or("nil");
    EVENTS.with(|e| e.borrow_mut().push((id, ty)));
    Ok(0)
}

#[derive(Debug, Clone, PartialEq, Eq)]
pub enum End {
    Done,
    /// the instruction limit was hit (probes recorded before are still genuine observations)
    Limit,
    CompileError(String),
    RuntimeError(String),
}

pub struct Vm {
    vm: Lua,
}

impl Default for Vm {
    fn default() -> Self {
        Self::new()
    }
}

impl Vm {
    pub fn new() -> Vm {
        let mut vm = Lua::new(SafeOption::default());
        let _ = vm.open_stdlib(Stdlib::All);
        Vm { vm }
    }

    /// compile only
    #[allow(dead_code)]
    pub fn compiles(&mut self, src: &str) -> Result<(), String> {
        match self.vm.load(src).into_function() {
            Ok(_) => Ok(()),
            Err(e) => Err(self.vm.get_error_message(e).message),
        }
    }

    /// Runs `src` in a fresh sandbox environment (default safe libraries) where `__probe` records
    /// `(id, type(value))` and `__c1`… are the given booleans.
    ///
    /// A run that ends at the instruction limit leaves frames behind in the `luars` state (after
    /// enough of them every later run fails with a runtime error), so the VM is rebuilt after every
    /// abnormal end, and a runtime error is only believed when a fresh VM reproduces it.
    pub fn run(&mut self, src: &str, opaque: &[bool], instruction_limit: u64) -> (Vec<(i64, &'static str)>, End) {
        let (ev, end) = self.run_once(src, opaque, instruction_limit);
        match end {
            End::Done => (ev, end),
            End::RuntimeError(_) => {
                *self = Vm::new();
                let r = self.run_once(src, opaque, instruction_limit);
                if r.1 != End::Done {
                    *self = Vm::new();
                }
                r
            }
            _ => {
                *self = Vm::new();
                (ev, end)
            }
        }
    }

    fn run_once(&mut self, src: &str, opaque: &[bool], instruction_limit: u64) -> (Vec<(i64, &'static str)>, End) {
        EVENTS.with(|e| e.borrow_mut().clear());
        let mut cfg = SandboxConfig::default().with_instruction_limit(instruction_limit).with_global("__probe", LuaValue::cfunction(probe_fn));
        for (i, b) in opaque.iter().enumerate() {
            cfg = cfg.with_global(format!("__c{}", i + 1), LuaValue::boolean(*b));
        }
        let res = self.vm.execute_sandboxed(src, &cfg);
        let end = match res {
            Ok(_) => End::Done,
            Err(e) => {
                let is_compile = matches!(e, luars::LuaError::CompileError);
                let msg = self.vm.get_error_message(e).message;
                if is_compile {
                    End::CompileError(msg)
                } else if msg.contains("instruction limit") {
                    End::Limit
                } else {
                    End::RuntimeError(msg)
                }
            }
        };
        let ev = EVENTS.with(|e| std::mem::take(&mut *e.borrow_mut()));
        (ev, end)
    }
}
