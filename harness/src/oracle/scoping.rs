//! Reference name resolver for `scope_frag` programs, written from the Lua reference manual
//! (§3.5 Visibility Rules, §3.3.4 repeat, §3.3.5 for, §3.3.7 local declarations, §3.4.11 function definitions):
//!
//! * Lua is lexically scoped; the scope of a local variable begins at the first statement AFTER its
//!   declaration and lasts until the last non-void statement of the innermost block that includes it
//!   (so in `local x = x` the second x is whatever was visible before).
//! * `local function f body` translates to `local f; f = function body`: f is visible inside its own body.
//!   `function f body` translates to `f = function body`: f is an ordinary variable reference.
//! * numeric `for v = e1, e2, e3 do block end`: the three expressions are evaluated once, before the loop
//!   starts; v is local to the loop body.  generic `for n1, … in explist do block end`: explist is evaluated
//!   once before the loop; the names are local to the loop body.
//! * `repeat block until exp`: the inner block does not end at `until` but after the condition, so the
//!   condition can refer to local variables declared inside the loop block.
//! * parameters are locals of the function body; a function body sees the locals of enclosing functions.
//! * Any name not bound by a visible local is a global (a field of `_ENV`).
//! * When the same name is visible more than once, the most recently declared one is meant (later
//!   declarations shadow earlier ones – for duplicates inside ONE declaration list the later position is the
//!   later declaration; this is what the property statement calls "duplicate names in one declaration").
//!
//! The resolver keeps Lua's "active local variables" list: a stack of (name, declaring token); lookup scans
//! from the most recent entry backwards.  It walks the AST in source order with a cursor into the renderer's
//! token list and panics if the two ever disagree (a harness bug, never a verdict).
use crate::gens::scope_frag::*;

struct W<'a> {
    toks: &'a mut Vec<NameTok>,
    cur: usize,
    active: Vec<(u8, usize)>,
    frames: Vec<Frame>,
    group: u32,
}

impl<'a> W<'a> {
    fn take(&mut self, n: u8, is_decl: bool) -> usize {
        let i = self.cur;
        let t = self.toks.get(i).unwrap_or_else(|| panic!("scoping oracle: token cursor {i} past the end"));
        assert!(t.name == NAMES[n as usize % 4] && t.is_decl == is_decl, "scoping oracle out of sync with the renderer at token {i}");
        self.cur += 1;
        i
    }
    fn decl(&mut self, n: u8, kind: DeclKind, group: u32) -> usize {
        let i = self.take(n, true);
        let t = &mut self.toks[i];
        t.expected_decl = Some(i);
        t.kind = Some(kind);
        t.group = group;
        t.frames = self.frames.clone();
        i
    }
    fn new_group(&mut self) -> u32 {
        self.group += 1;
        self.group
    }
    fn activate(&mut self, n: u8, tok: usize) {
        self.active.push((n % 4, tok));
    }
    fn use_name(&mut self, n: u8) {
        let i = self.take(n, false);
        let n = n % 4;
        let hit = self.active.iter().rev().find(|(m, _)| *m == n).map(|x| x.1);
        let visible = self.active.iter().filter(|(m, _)| *m == n).count() as u32;
        let t = &mut self.toks[i];
        t.expected_decl = hit;
        t.visible = visible;
        t.frames = self.frames.clone();
    }

    fn exprs(&mut self, es: &[Expr]) {
        for e in es {
            self.expr(e);
        }
    }

    fn func_body(&mut self, params: &[u8], body: &Block) {
        let mark = self.active.len();
        let g0 = self.new_group();
        self.frames.push(Frame::Closure(g0));
        let g = self.new_group();
        let mut ds = vec![];
        for p in params {
            ds.push((*p, self.decl(*p, DeclKind::Param, g)));
        }
        for (p, d) in ds {
            self.activate(p, d);
        }
        self.block_inner(body);
        self.frames.pop();
        self.active.truncate(mark);
    }

    fn expr(&mut self, e: &Expr) {
        match e {
            Expr::Num(_) | Expr::Global(_) => {}
            Expr::Name(n) => self.use_name(*n),
            Expr::Bin(l, _, r) => {
                self.expr(l);
                self.expr(r);
            }
            Expr::Not(x) | Expr::Paren(x) => self.expr(x),
            Expr::Field(p, _) => self.expr(p),
            Expr::Index(p, k) => {
                self.expr(p);
                self.expr(k);
            }
            Expr::Call(f, a) => {
                self.expr(f);
                self.exprs(a);
            }
            Expr::Method(p, _, a) => {
                self.expr(p);
                self.exprs(a);
            }
            Expr::Table(fs) => {
                for f in fs {
                    match f {
                        TField::Pos(e) | TField::Named(_, e) => self.expr(e),
                        TField::Keyed(k, e) => {
                            self.expr(k);
                            self.expr(e);
                        }
                    }
                }
            }
            Expr::Closure(ps, _, b) => self.func_body(ps, b),
        }
    }

    /// statements + return of a block, WITHOUT closing its scope
    fn block_inner(&mut self, b: &Block) {
        for s in &b.stmts {
            self.stmt(s);
        }
        if let Some(r) = &b.ret {
            self.exprs(r);
        }
    }

    fn block(&mut self, b: &Block) {
        let mark = self.active.len();
        let g = self.new_group();
        self.frames.push(Frame::Block(g));
        self.block_inner(b);
        self.frames.pop();
        self.active.truncate(mark);
    }

    fn stmt(&mut self, s: &Stmt) {
        match s {
            Stmt::Local(ns, es) => {
                let g = self.new_group();
                let ds: Vec<(u8, usize)> = ns.iter().map(|n| (*n, self.decl(*n, DeclKind::Local, g))).collect();
                self.frames.push(Frame::LocalInit(ds.iter().map(|d| d.1).collect()));
                self.exprs(es);
                self.frames.pop();
                // scope begins after the declaration statement
                for (n, d) in ds {
                    self.activate(n, d);
                }
            }
            Stmt::Assign(ts, es) => {
                self.exprs(ts);
                self.exprs(es);
            }
            Stmt::CallStat(e) => self.expr(e),
            Stmt::LocalFunc(n, ps, b) => {
                let g = self.new_group();
                let d = self.decl(*n, DeclKind::LocalFunc, g);
                // local f; f = function … end
                self.activate(*n, d);
                self.func_body(ps, b);
            }
            Stmt::Func(root, _, _, ps, b) => {
                self.use_name(*root);
                self.func_body(ps, b);
            }
            Stmt::Do(b) => self.block(b),
            Stmt::While(c, b) => {
                self.expr(c);
                self.block(b);
            }
            Stmt::Repeat(b, c) => {
                let mark = self.active.len();
                let g = self.new_group();
                self.frames.push(Frame::Block(g));
                self.block_inner(b);
                self.frames.pop();
                let body_decls: Vec<usize> = self.active[mark..].iter().map(|x| x.1).collect();
                let empty = b.stmts.is_empty() && b.ret.is_none();
                self.frames.push(Frame::Until(body_decls, g, empty));
                self.expr(c);
                self.frames.pop();
                self.active.truncate(mark);
            }
            Stmt::If(arms, els) => {
                for (c, b) in arms {
                    self.expr(c);
                    self.block(b);
                }
                if let Some(b) = els {
                    self.block(b);
                }
            }
            Stmt::NumFor(v, a, b, c, body) => {
                let g = self.new_group();
                let d = self.decl(*v, DeclKind::NumFor, g);
                self.frames.push(Frame::NumHdr(vec![d]));
                self.expr(a);
                self.expr(b);
                if let Some(c) = c {
                    self.expr(c);
                }
                self.frames.pop();
                let mark = self.active.len();
                self.activate(*v, d);
                self.block(body);
                self.active.truncate(mark);
            }
            Stmt::GenFor(vs, es, body) => {
                let g = self.new_group();
                let ds: Vec<(u8, usize)> = vs.iter().map(|n| (*n, self.decl(*n, DeclKind::GenFor, g))).collect();
                self.frames.push(Frame::GenHdr(ds.iter().map(|d| d.1).collect()));
                self.exprs(es);
                self.frames.pop();
                let mark = self.active.len();
                for (n, d) in ds {
                    self.activate(n, d);
                }
                self.block(body);
                self.active.truncate(mark);
            }
        }
    }
}

/// Fills `expected_decl`, `kind`, `group`, `frames`, `visible` of every token.
pub fn resolve(p: &Program, toks: &mut Vec<NameTok>) {
    let mut w = W { toks, cur: 0, active: vec![], frames: vec![], group: 0 };
    w.block_inner(&p.body);
    assert!(w.cur == w.toks.len(), "scoping oracle consumed {} of {} tokens", w.cur, w.toks.len());
}

/// What the tool answered for a use, in terms of the token list.
#[derive(Clone, Debug, PartialEq)]
pub enum Actual {
    /// a local declaration whose declaring token is `toks[i]`
    Local(usize),
    /// a local declaration at a byte offset that is not one of our declaring tokens
    LocalAt(usize),
    /// no declaration / a global / a member
    NonLocal,
}

fn innermost_ctx(frames: &[Frame]) -> &'static str {
    for f in frames.iter().rev() {
        match f {
            Frame::NumHdr(_) => return "numeric-for-header",
            Frame::GenHdr(_) => return "generic-for-header",
            Frame::LocalInit(_) => return "local-init",
            Frame::Until(..) => return "until",
            Frame::Closure(_) => return "function-body",
            Frame::Block(_) => {}
        }
    }
    "plain"
}

/// Narrow root-cause key for a use whose answer differs from the reference.  Computed from the AST context
/// of the use and the relation between the expected and the actual declaration.
pub fn classify(toks: &[NameTok], use_idx: usize, actual: &Actual) -> String {
    let u = &toks[use_idx];
    let exp = u.expected_decl;
    if let Actual::Local(a) = actual {
        // the answer is a declaration whose header/initialiser the use sits in (not yet in scope)
        let mut closures_after = 0;
        for f in u.frames.iter().rev() {
            let via = if closures_after > 0 { "-via-closure" } else { "" };
            match f {
                Frame::Closure(_) => closures_after += 1,
                Frame::NumHdr(v) if v.contains(a) => return format!("numeric-for-header-own-var{via}"),
                Frame::GenHdr(v) if v.contains(a) => return format!("generic-for-header-own-var{via}"),
                Frame::LocalInit(v) if v.contains(a) => return format!("local-init-own-var{via}"),
                _ => {}
            }
        }
        if let Some(e) = exp {
            let (te, ta) = (&toks[e], &toks[*a]);
            if te.group == ta.group && te.kind == ta.kind && te.name == ta.name && e != *a {
                let which = if *a < e { "first" } else { "later" };
                return format!("dup-{}-{}", te.kind.map(|k| k.name()).unwrap_or("?"), which);
            }
        }
    }
    // until-condition must see the body's locals
    if let Some(e) = exp {
        for f in u.frames.iter().rev() {
            match f {
                Frame::Closure(_) => break,
                Frame::Until(v, _, _) if v.contains(&e) => {
                    return format!("until-misses-body-local:{}", actual_kind(toks, use_idx, actual));
                }
                _ => {}
            }
        }
    }
    // the answer is a declaration of a construct that does not enclose the use (e.g. a parameter of a sibling closure)
    if let Actual::Local(a) = actual {
        let fa = &toks[*a].frames;
        let encloses = fa.len() <= u.frames.len() && fa[..] == u.frames[..fa.len()];
        if !encloses {
            // a declaration inside the until-condition of a repeat with an EMPTY body that also contains the use
            let shared_empty_until = u.frames.iter().any(|f| matches!(f, Frame::Until(_, _, true)) && fa.contains(f));
            if shared_empty_until {
                return format!("empty-repeat-body:until-leaks-inner-{}", actual_kind(toks, use_idx, actual));
            }
            return format!("leak:{}:{}", innermost_ctx(&u.frames), actual_kind(toks, use_idx, actual));
        }
    }
    let exp_kind = match exp {
        None => "global".to_string(),
        Some(e) => toks[e].kind.map(|k| k.name()).unwrap_or("?").to_string(),
    };
    format!("other:{}:{}->{}", innermost_ctx(&u.frames), exp_kind, actual_kind(toks, use_idx, actual))
}

fn actual_kind(toks: &[NameTok], use_idx: usize, actual: &Actual) -> String {
    match actual {
        Actual::NonLocal => "nonlocal".into(),
        Actual::LocalAt(_) => "local-at-unknown-offset".into(),
        Actual::Local(a) => {
            let rel = if *a > use_idx { "later-" } else { "" };
            format!("{rel}{}", toks[*a].kind.map(|k| k.name()).unwrap_or("?"))
        }
    }
}
