//! First-principles text positions as the Language Server Protocol defines them (spec 3.17,
//! "Text Documents" / "Position"): a position is (zero-based line, zero-based character offset in
//! the line); the end-of-line sequences are `\n`, `\r\n` and `\r`; unless another encoding was
//! negotiated the character offset counts UTF-16 code units.
//!
//! Written without looking at the implementation; parameterised over the column unit and the set of
//! line terminators so that a check can *name* which deviation explains an observed position.

#[derive(Clone, Copy, Debug, PartialEq, Eq)]
pub enum Unit {
    /// UTF-16 code units (protocol default, mandatory to support)
    Utf16,
    /// Unicode scalar values (`chars()`), i.e. the optional "utf-32" encoding
    Scalar,
    /// UTF-8 bytes, i.e. the optional "utf-8" encoding
    Byte,
}

#[derive(Clone, Copy, Debug, PartialEq, Eq)]
pub enum Eol {
    /// `\n`, `\r\n`, `\r` (protocol)
    All,
    /// only `\n` (and therefore `\r\n`) ends a line; a lone `\r` is an ordinary character
    NlOnly,
}

#[derive(Clone, Debug)]
pub struct Line {
    /// byte offset of the first character of the line
    pub start: usize,
    /// byte offset of the end of the line's content (= start of its terminator, or text length)
    pub content_end: usize,
    /// byte offset just behind the terminator (= start of the next line, or text length)
    pub end: usize,
}

/// Splits `text` into lines.  There is always at least one line; a text ending with a terminator
/// has a final empty line.
pub fn lines(text: &str, eol: Eol) -> Vec<Line> {
    let b = text.as_bytes();
    let mut out = vec![];
    let mut start = 0usize;
    let mut i = 0usize;
    while i < b.len() {
        let term = match b[i] {
            b'\n' => 1,
            b'\r' if i + 1 < b.len() && b[i + 1] == b'\n' => 2,
            b'\r' if eol == Eol::All => 1,
            _ => 0,
        };
        if term > 0 {
            out.push(Line { start, content_end: i, end: i + term });
            i += term;
            start = i;
        } else {
            i += 1;
        }
    }
    out.push(Line { start, content_end: b.len(), end: b.len() });
    out
}

pub fn width(c: char, unit: Unit) -> usize {
    match unit {
        Unit::Utf16 => {
            if (c as u32) >= 0x1_0000 {
                2
            } else {
                1
            }
        }
        Unit::Scalar => 1,
        Unit::Byte => {
            let v = c as u32;
            if v < 0x80 {
                1
            } else if v < 0x800 {
                2
            } else if v < 0x1_0000 {
                3
            } else {
                4
            }
        }
    }
}

/// Position of a char-boundary byte offset (`offset <= text.len()`).  An offset between `\r` and
/// `\n` of one terminator belongs to the line that terminator ends (column = line length + 1 unit).
pub fn position(text: &str, offset: usize, unit: Unit, eol: Eol) -> (u32, u32) {
    let ls = lines(text, eol);
    // last line whose start is <= offset
    let mut li = 0usize;
    for (k, l) in ls.iter().enumerate() {
        if l.start <= offset {
            li = k;
        }
    }
    let l = &ls[li];
    let col: usize = text[l.start..offset].chars().map(|c| width(c, unit)).sum();
    (li as u32, col as u32)
}

/// Byte offset of a position; `None` when the line does not exist.  A character beyond the line
/// length "defaults back to the line length" (spec), i.e. the end of the line's content.  A
/// character pointing into the middle of a multi-unit character is rounded down to its start.
pub fn offset(text: &str, line: u32, character: u32, unit: Unit, eol: Eol) -> Option<usize> {
    let ls = lines(text, eol);
    let l = ls.get(line as usize)?;
    let mut col = 0usize;
    let mut off = l.start;
    for c in text[l.start..l.content_end].chars() {
        let w = width(c, unit);
        if col + w > character as usize {
            break;
        }
        col += w;
        off += c.len_utf8();
    }
    Some(off)
}

pub fn range(text: &str, start: usize, end: usize, unit: Unit, eol: Eol) -> ((u32, u32), (u32, u32)) {
    (position(text, start, unit, eol), position(text, end, unit, eol))
}

#[cfg(test)]
mod tests {
    use super::*;
    #[test]
    fn basics() {
        let t = "a😀b\r\nc\rd\n";
        let ls = lines(t, Eol::All);
        assert_eq!(ls.len(), 4);
        assert_eq!(position(t, 5, Unit::Utf16, Eol::All), (0, 3));
        assert_eq!(position(t, 5, Unit::Scalar, Eol::All), (0, 2));
        assert_eq!(position(t, 10, Unit::Utf16, Eol::All), (2, 0));
        assert_eq!(position(t, 10, Unit::Utf16, Eol::NlOnly), (1, 2));
        assert_eq!(offset(t, 0, 99, Unit::Utf16, Eol::All), Some(6));
        assert_eq!(offset(t, 0, 2, Unit::Utf16, Eol::All), Some(1));
        assert_eq!(offset(t, 4, 0, Unit::Utf16, Eol::All), None);
        assert_eq!(offset(t, 3, 0, Unit::Utf16, Eol::All), Some(t.len()));
    }
}
