//! Structural validators for LSP results (C26).  All positions are judged in the server's own line model
//! (lines split at '\n'; characters in UTF-16 units) – whether that model is the right one is C22/C23's
//! business.
use crate::ls::docgen::{line_count, line_len16};
use serde_json::Value;

pub struct Doc<'a> {
    pub uri: String,
    pub text: &'a str,
}

pub type Problem = (String, String); // (signature, message)

fn pos(v: &Value) -> Option<(u32, u32)> {
    Some((v.get("line")?.as_u64()? as u32, v.get("character")?.as_u64()? as u32))
}

pub fn range_of(v: &Value) -> Option<((u32, u32), (u32, u32))> {
    Some((pos(v.get("start")?)?, pos(v.get("end")?)?))
}

fn in_doc(doc: &Doc, p: (u32, u32)) -> bool {
    match line_len16(doc.text, p.0) {
        Some(len) => p.1 <= len,
        None => false,
    }
}

pub fn check_range(doc: &Doc, what: &str, r: ((u32, u32), (u32, u32))) -> Option<Problem> {
    if r.0 > r.1 {
        return Some((format!("{what}:range-start-after-end"), format!("{what}: range {r:?} has start after end")));
    }
    if !in_doc(doc, r.0) || !in_doc(doc, r.1) {
        return Some((
            format!("{what}:range-outside-document"),
            format!("{what}: range {r:?} is outside the document ({} lines; line lengths {:?})", line_count(doc.text), (r.0 .0.min(r.1 .0)..=r.1 .0.min(line_count(doc.text))).map(|l| line_len16(doc.text, l)).take(4).collect::<Vec<_>>()),
        ));
    }
    None
}

fn contains(outer: ((u32, u32), (u32, u32)), inner: ((u32, u32), (u32, u32))) -> bool {
    outer.0 <= inner.0 && inner.1 <= outer.1
}

/// Every `range` / `selectionRange` / `targetRange` / `targetSelectionRange` / `originSelectionRange` member found anywhere in
/// `v` whose sibling `uri`/`targetUri` (if any) is this document must lie inside it.
pub fn all_ranges_in_doc(doc: &Doc, what: &str, v: &Value, out: &mut Vec<Problem>) {
    match v {
        Value::Object(m) => {
            let uri = m.get("uri").or_else(|| m.get("targetUri")).and_then(|u| u.as_str());
            let same_doc = uri.map(|u| u == doc.uri).unwrap_or(true);
            for (k, x) in m {
                if matches!(k.as_str(), "range" | "selectionRange" | "targetRange" | "targetSelectionRange" | "originSelectionRange" | "insert" | "replace") {
                    if let Some(r) = range_of(x) {
                        // originSelectionRange always refers to the requesting document
                        if same_doc || k == "originSelectionRange" {
                            if let Some(p) = check_range(doc, &format!("{what}.{k}"), r) {
                                out.push(p);
                            }
                        }
                        continue;
                    }
                }
                all_ranges_in_doc(doc, what, x, out);
            }
        }
        Value::Array(a) => {
            for x in a {
                all_ranges_in_doc(doc, what, x, out);
            }
        }
        _ => {}
    }
}

pub fn semantic_tokens(doc: &Doc, result: &Value, n_types: usize, n_mods: usize) -> Vec<Problem> {
    let mut out = vec![];
    let Some(data) = result.get("data").and_then(|d| d.as_array()) else { return out };
    if data.len() % 5 != 0 {
        out.push(("semanticTokens:data-length".into(), format!("data length {} is not a multiple of 5", data.len())));
        return out;
    }
    let (mut line, mut start) = (0u64, 0u64);
    let mut prev_end: Option<(u64, u64)> = None;
    for (i, t) in data.chunks(5).enumerate() {
        let n: Vec<u64> = t.iter().map(|x| x.as_u64().unwrap_or(u64::MAX)).collect();
        if n.contains(&u64::MAX) {
            out.push(("semanticTokens:non-integer".into(), format!("token #{i} has a non-integer field: {t:?}")));
            return out;
        }
        if n[0] > 0 {
            line += n[0];
            start = n[1];
        } else {
            start += n[1];
        }
        let len = n[2];
        if let Some((pl, pe)) = prev_end {
            if line == pl && start < pe {
                out.push(("semanticTokens:overlap".into(), format!("token #{i} at {line}:{start} overlaps the previous token ending at {pl}:{pe}")));
                return out;
            }
        }
        match line_len16(doc.text, line as u32) {
            None => {
                out.push(("semanticTokens:line-outside-document".into(), format!("token #{i} on line {line} but the document has {} lines", line_count(doc.text))));
                return out;
            }
            Some(ll) => {
                if start + len > ll as u64 {
                    out.push(("semanticTokens:beyond-line-end".into(), format!("token #{i} at {line}:{start} len {len} runs past the end of its line (length {ll}); client has no multiline token support")));
                    return out;
                }
            }
        }
        if n[3] as usize >= n_types {
            out.push(("semanticTokens:type-outside-legend".into(), format!("token #{i} type {} >= legend size {n_types}", n[3])));
            return out;
        }
        if n_mods < 64 && n[4] >> n_mods != 0 {
            out.push(("semanticTokens:modifier-outside-legend".into(), format!("token #{i} modifier bits {:b} exceed legend size {n_mods}", n[4])));
            return out;
        }
        prev_end = Some((line, start + len));
    }
    out
}

pub fn document_symbols(doc: &Doc, result: &Value) -> Vec<Problem> {
    fn walk(doc: &Doc, v: &Value, parent: Option<((u32, u32), (u32, u32))>, out: &mut Vec<Problem>) {
        let Some(r) = v.get("range").and_then(range_of) else { return };
        if let Some(p) = check_range(doc, "documentSymbol.range", r) {
            out.push(p);
        }
        if let Some(sr) = v.get("selectionRange").and_then(range_of) {
            if let Some(p) = check_range(doc, "documentSymbol.selectionRange", sr) {
                out.push(p);
            }
            if !contains(r, sr) {
                out.push(("documentSymbol:selectionRange-outside-range".into(), format!("symbol {:?}: selectionRange {sr:?} not inside range {r:?}", v.get("name"))));
            }
        }
        if let Some(pr) = parent {
            if !contains(pr, r) {
                out.push(("documentSymbol:child-outside-parent".into(), format!("symbol {:?}: range {r:?} not inside parent range {pr:?}", v.get("name"))));
            }
        }
        if let Some(ch) = v.get("children").and_then(|c| c.as_array()) {
            for c in ch {
                walk(doc, c, Some(r), out);
            }
        }
    }
    let mut out = vec![];
    if let Some(a) = result.as_array() {
        for s in a {
            if s.get("location").is_some() {
                // flat SymbolInformation
                all_ranges_in_doc(doc, "documentSymbol.location", s, &mut out);
            } else {
                walk(doc, s, None, &mut out);
            }
        }
    }
    out
}

pub fn folding_ranges(doc: &Doc, result: &Value) -> Vec<Problem> {
    let mut out = vec![];
    if let Some(a) = result.as_array() {
        for f in a {
            let (Some(s), Some(e)) = (f.get("startLine").and_then(|x| x.as_u64()), f.get("endLine").and_then(|x| x.as_u64())) else { continue };
            if s > e {
                out.push(("foldingRange:start-after-end".into(), format!("folding range {f} has startLine > endLine")));
            } else if e as u32 >= line_count(doc.text) {
                out.push(("foldingRange:outside-document".into(), format!("folding range {f} ends beyond the last line ({} lines)", line_count(doc.text))));
            } else if s == e {
                if let (Some(sc), Some(ec)) = (f.get("startCharacter").and_then(|x| x.as_u64()), f.get("endCharacter").and_then(|x| x.as_u64())) {
                    if sc > ec {
                        out.push(("foldingRange:start-after-end".into(), format!("folding range {f} has start after end on one line")));
                    }
                }
            }
        }
    }
    out
}

pub fn selection_ranges(doc: &Doc, result: &Value, _positions: &[(u32, u32)]) -> Vec<Problem> {
    let mut out = vec![];
    let Some(a) = result.as_array() else { return out };
    for sr in a.iter() {
        let mut cur = sr;
        let mut prev: Option<((u32, u32), (u32, u32))> = None;
        let mut depth = 0;
        loop {
            let Some(r) = cur.get("range").and_then(range_of) else { break };
            if let Some(p) = check_range(doc, "selectionRange.range", r) {
                out.push(p);
                break;
            }
            match prev {
                None => {}
                Some(inner) => {
                    if !contains(r, inner) || r == inner {
                        out.push(("selectionRange:parent-not-strictly-larger".into(), format!("parent range {r:?} does not strictly contain child range {inner:?} (depth {depth})")));
                        break;
                    }
                }
            }
            prev = Some(r);
            depth += 1;
            match cur.get("parent") {
                Some(p) if p.is_object() => cur = p,
                _ => break,
            }
        }
    }
    out
}

pub fn completion(doc: &Doc, result: &Value, cursor: (u32, u32)) -> Vec<Problem> {
    let mut out = vec![];
    let items = match result {
        Value::Array(a) => a.clone(),
        Value::Object(m) => m.get("items").and_then(|i| i.as_array()).cloned().unwrap_or_default(),
        _ => vec![],
    };
    if !in_doc(doc, cursor) {
        return out;
    }
    for it in items.iter() {
        let Some(te) = it.get("textEdit") else { continue };
        let ranges: Vec<_> = ["range", "insert", "replace"].iter().filter_map(|k| te.get(*k).and_then(range_of)).collect();
        for r in ranges {
            if let Some(p) = check_range(doc, "completion.textEdit", r) {
                out.push(p);
            } else if r.0 .0 != r.1 .0 {
                out.push(("completion:textEdit-multi-line".into(), format!("item {:?}: main edit range {r:?} spans lines", it.get("label"))));
            } else if !(r.0 <= cursor && cursor <= r.1) {
                out.push(("completion:textEdit-misses-cursor".into(), format!("item {:?}: main edit range {r:?} does not contain the cursor {cursor:?}", it.get("label"))));
            }
        }
        if out.len() > 3 {
            break;
        }
    }
    out
}

/// WorkspaceEdit: per file, edits pairwise non-overlapping and inside the document
pub fn workspace_edit(doc: &Doc, result: &Value) -> Vec<Problem> {
    let mut out = vec![];
    let mut per_file: Vec<(String, Vec<((u32, u32), (u32, u32))>)> = vec![];
    if let Some(ch) = result.get("changes").and_then(|c| c.as_object()) {
        for (uri, edits) in ch {
            let rs = edits.as_array().map(|a| a.iter().filter_map(|e| e.get("range").and_then(range_of)).collect()).unwrap_or_default();
            per_file.push((uri.clone(), rs));
        }
    }
    if let Some(dc) = result.get("documentChanges").and_then(|c| c.as_array()) {
        for d in dc {
            let uri = d.get("textDocument").and_then(|t| t.get("uri")).and_then(|u| u.as_str()).unwrap_or("").to_string();
            let rs = d.get("edits").and_then(|e| e.as_array()).map(|a| a.iter().filter_map(|e| e.get("range").and_then(range_of)).collect()).unwrap_or_default();
            per_file.push((uri, rs));
        }
    }
    for (uri, mut rs) in per_file {
        if uri == doc.uri {
            for r in &rs {
                if let Some(p) = check_range(doc, "workspaceEdit.edit", *r) {
                    out.push(p);
                }
            }
        }
        rs.sort();
        for w in rs.windows(2) {
            if w[1].0 < w[0].1 || w[0] == w[1] {
                out.push(("workspaceEdit:overlapping-edits".into(), format!("edits {:?} and {:?} for {uri} overlap", w[0], w[1])));
                break;
            }
        }
    }
    out
}

pub fn inlay_hints(doc: &Doc, result: &Value, requested: ((u32, u32), (u32, u32))) -> Vec<Problem> {
    let mut out = vec![];
    if !in_doc(doc, requested.0) || !in_doc(doc, requested.1) || requested.0 > requested.1 {
        return out;
    }
    if let Some(a) = result.as_array() {
        for h in a {
            let Some(p) = h.get("position").and_then(pos) else { continue };
            if !in_doc(doc, p) {
                out.push(("inlayHint:position-outside-document".into(), format!("hint {:?} at {p:?} outside the document", h.get("label"))));
            }
            if out.len() > 2 {
                break;
            }
        }
    }
    out
}
