//! Debug helpers: `vcheck --tool parse <file> [level] [doc]`
use emmylua_parser::{LuaParser};

pub fn main(args: &[String]) -> i32 {
    match args.first().map(|s| s.as_str()) {
        Some("parse") => {
            let text = std::fs::read_to_string(&args[1]).expect("read");
            let level: u8 = args.get(2).and_then(|s| s.parse().ok()).unwrap_or(0);
            let doc = args.get(3).map(|s| s != "0").unwrap_or(true);
            let cfg = crate::props::c01::parser_config(level, doc, 0, None);
            let tree = LuaParser::parse(&text, cfg);
            println!("{:#?}", tree.get_red_root());
            for e in tree.get_errors() {
                println!("ERR {:?} {:?} {}", e.kind, e.range, e.message);
            }
            println!("lossless: {:?}", crate::props::c01::lossless(&text, &tree));
            0
        }
        // `nest-thresholds [kind ...]`: smallest depth per nesting kind whose parse kills a 2 MiB-stack worker
        Some("nest-thresholds") => {
            use crate::engine::{worker, Property, Verdict};
            use crate::props::c02::{Case, Input, C02, MAX_DEPTH};
            let root = std::path::PathBuf::from(std::env::var("VERIF_ROOT").unwrap_or_else(|_| "/verif".into()));
            let level: u8 = std::env::var("NEST_LEVEL").ok().and_then(|s| s.parse().ok()).unwrap_or(6);
            let mut child = worker::Child::spawn("C02", &root);
            let mut probe = |kind: &str, depth: u32, closed: bool| -> Option<String> {
                let case = Case { input: Input::Nest { kind: kind.to_string(), depth, closed, capped: false }, level, doc: true, ext: 0, cache: false, special: false };
                let req = serde_json::to_string(&case).unwrap();
                match child.call(&req, 300) {
                    worker::Reply::Line(_) => None,
                    worker::Reply::Died(how) => {
                        let tail = child.stderr_tail();
                        child.respawn();
                        match C02.on_abort(&case, &how, &tail, String::new()) {
                            Verdict::Fail(f) => Some(f.sig),
                            _ => Some("?".into()),
                        }
                    }
                    worker::Reply::Timeout => {
                        child.respawn();
                        Some("timeout".into())
                    }
                }
            };
            for k in crate::gens::nesting::KINDS {
                if args.len() > 1 && !args[1..].iter().any(|a| a == k.name) {
                    continue;
                }
                for closed in [true, false] {
                    if !closed && k.close.is_empty() {
                        continue;
                    }
                    match probe(k.name, MAX_DEPTH, closed) {
                        None => println!("{:22} closed={:5} no crash up to {}", k.name, closed, MAX_DEPTH),
                        Some(sig) => {
                            let (mut lo, mut hi) = (0u32, MAX_DEPTH); // lo passes, hi crashes
                            let mut last = sig;
                            while hi - lo > 1 {
                                let mid = lo + (hi - lo) / 2;
                                match probe(k.name, mid, closed) {
                                    None => lo = mid,
                                    Some(s) => {
                                        hi = mid;
                                        last = s;
                                    }
                                }
                            }
                            println!("{:22} closed={:5} min-crash-depth={:7} sig={}", k.name, closed, hi, last);
                        }
                    }
                }
            }
            0
        }
        _ => {
            eprintln!("tools: parse | nest-thresholds");
            2
        }
    }
}
