//! Debug helpers: `vcheck --tool parse <file> [level] [doc]`
use emmylua_parser::{LuaParser};

pub fn main(args: &[String]) -> i32 {
    match args.first().map(|s| s.as_str()) {
        Some("parse") => {
            let text = std::fs::read_to_string(&args[1]).expect("read");
            let level: u8 = args.get(2).and_then(|s| s.parse().ok()).unwrap_or(0);
            let doc = args.get(3).map(|s| s != "0").unwrap_or(true);
            let cfg = crate::props::c01::parser_config(level, doc, 0, None);
            let tree = LuaParser::parse(&text, cfg);
            println!("{:#?}", tree.get_red_root());
            for e in tree.get_errors() {
                println!("ERR {:?} {:?} {}", e.kind, e.range, e.message);
            }
            println!("lossless: {:?}", crate::props::c01::lossless(&text, &tree));
            0
        }
        Some("flow") => {
            // vcheck --tool flow <file.lua> [nostd]: inferred type at every __probe(id, x) + VM observations + diagnostics
            let text = std::fs::read_to_string(&args[1]).expect("read");
            let nostd = args.get(2).map(|s| s == "nostd").unwrap_or(false);
            let mut ws = if nostd { emmylua_code_analysis::VirtualWorkspace::new() } else { emmylua_code_analysis::VirtualWorkspace::new_with_init_std_lib() };
            let inf = crate::props::c15::infer_probes(&mut ws, &text).expect("analysis");
            let mut ids: Vec<&u32> = inf.keys().collect();
            ids.sort();
            for id in ids {
                match &inf[id] {
                    crate::props::c15::Inferred::Type(t) => println!("probe {id}: inferred {}   [{:?}]", crate::props::c15::show_type(&ws, t), t),
                    crate::props::c15::Inferred::Err(e) => println!("probe {id}: infer error {e}"),
                }
            }
            let mut vm = crate::oracle::luaexec::Vm::new();
            let used: Vec<u8> = (0..5u8).filter(|k| text.contains(&format!("__c{}", k + 1))).collect();
            for env in 0u8..32 {
                if (0..5u8).any(|k| env >> k & 1 == 1 && !used.contains(&k)) {
                    continue;
                }
                let opaque: Vec<bool> = (0..5).map(|k| env >> k & 1 == 1).collect();
                let (ev, end) = vm.run(&text, &opaque, 1_000_000);
                println!("env {:05b}: {:?} {:?}", env, ev, end);
            }
            let fid = ws.def_file("flow_case.lua", &text);
            for d in ws.analysis.diagnose_file(fid, tokio_util::sync::CancellationToken::new()).unwrap_or_default() {
                println!("diag {:?} {}:{} {}", d.code, d.range.start.line, d.range.start.character, d.message);
            }
            0
        }
        _ => {
            eprintln!("tools: parse | flow");
            2
        }
    }
}
