//! Debug helpers: `vcheck --tool parse <file> [level] [doc]`
use emmylua_parser::{LuaParser};

pub fn main(args: &[String]) -> i32 {
    match args.first().map(|s| s.as_str()) {
        Some("parse") => {
            let text = std::fs::read_to_string(&args[1]).expect("read");
            let level: u8 = args.get(2).and_then(|s| s.parse().ok()).unwrap_or(0);
            let doc = args.get(3).map(|s| s != "0").unwrap_or(true);
            let cfg = crate::props::c01::parser_config(level, doc, 0, None);
            let tree = LuaParser::parse(&text, cfg);
            println!("{:#?}", tree.get_red_root());
            for e in tree.get_errors() {
                println!("ERR {:?} {:?} {}", e.kind, e.range, e.message);
            }
            println!("lossless: {:?}", crate::props::c01::lossless(&text, &tree));
            0
        }
        Some("fmt") => {
            // vcheck --tool fmt <file> [level] [config.json] [passes]
            let text = std::fs::read_to_string(&args[1]).expect("read");
            let level: u8 = args.get(2).and_then(|s| s.parse().ok()).unwrap_or(0);
            let cfg: emmylua_formatter::LuaFormatConfig = match args.get(3).filter(|s| s.as_str() != "-") {
                Some(p) => serde_json::from_str(&std::fs::read_to_string(p).expect("read cfg")).expect("cfg json"),
                None => Default::default(),
            };
            let passes: usize = args.get(4).and_then(|s| s.parse().ok()).unwrap_or(1);
            let mut t = text;
            for _ in 0..passes {
                t = crate::props::c05::run_formatter(&t, level, &cfg).unwrap_or_else(|e| format!("PANIC {e}"));
            }
            print!("{t}");
            0
        }
        Some("mkcase") => {
            // vcheck --tool mkcase <file> [level] [config.json] [selstart selend]  -> replay JSON for C05/C06 (C07 with a selection)
            let text = std::fs::read_to_string(&args[1]).expect("read");
            let level: u8 = args.get(2).and_then(|s| s.parse().ok()).unwrap_or(0);
            let cfg: emmylua_formatter::LuaFormatConfig = match args.get(3).filter(|s| s.as_str() != "-") {
                Some(p) => serde_json::from_str(&std::fs::read_to_string(p).expect("read cfg")).expect("cfg json"),
                None => Default::default(),
            };
            let mut case = serde_json::to_value(crate::gens::fmt_input::FmtCase { text, level, cfg, src: "manual".into() }).unwrap();
            if let (Some(a), Some(b)) = (args.get(4).and_then(|s| s.parse::<u32>().ok()), args.get(5).and_then(|s| s.parse::<u32>().ok())) {
                case["sel"] = serde_json::json!([a, b]);
                case["sel_kind"] = serde_json::json!("manual");
            }
            println!("{}", serde_json::to_string_pretty(&serde_json::json!({"property": "manual", "sig": "", "msg": "", "case": case})).unwrap());
            0
        }
        _ => {
            eprintln!("tools: parse | fmt | mkcase");
            2
        }
    }
}
