//! Debug helpers: `vcheck --tool parse <file> [level] [doc]`
use emmylua_parser::{LuaParser};

pub fn main(args: &[String]) -> i32 {
    match args.first().map(|s| s.as_str()) {
        Some("parse") => {
            let text = std::fs::read_to_string(&args[1]).expect("read");
            let level: u8 = args.get(2).and_then(|s| s.parse().ok()).unwrap_or(0);
            let doc = args.get(3).map(|s| s != "0").unwrap_or(true);
            let cfg = crate::props::c01::parser_config(level, doc, 0, None);
            let tree = LuaParser::parse(&text, cfg);
            println!("{:#?}", tree.get_red_root());
            for e in tree.get_errors() {
                println!("ERR {:?} {:?} {}", e.kind, e.range, e.message);
            }
            println!("lossless: {:?}", crate::props::c01::lossless(&text, &tree));
            0
        }
        Some("lua_ast") => {
            // vcheck --tool lua_ast <level 0..5> <count> [seed] : print generated programs and the luars verdict
            use crate::gens::lua_ast as la;
            use proptest::strategy::{Strategy, ValueTree};
            use proptest::test_runner::{Config, RngSeed, TestRunner};
            let li: usize = args.get(1).and_then(|s| s.parse().ok()).unwrap_or(4);
            let n: usize = args.get(2).and_then(|s| s.parse().ok()).unwrap_or(5);
            let seed: u64 = args.get(3).and_then(|s| s.parse().ok()).unwrap_or(1);
            let level = la::Level::ALL[li % 6];
            let mut runner = TestRunner::new(Config { rng_seed: RngSeed::Fixed(seed), ..Config::default() });
            let strat = (la::program(level, la::Size::medium()), la::layout());
            let mut vm = crate::oracle::luavm::Lua55::new();
            for _ in 0..n {
                let (p, l) = strat.new_tree(&mut runner).unwrap().current();
                let r = la::render(&p, &l);
                println!("-- ===== level {} layout {:?} tokens {} =====", level.name(), l.mode, r.tokens.len());
                println!("{}", r.text);
                println!("-- luars: {:?}", vm.compile(&r.text));
            }
            0
        }
        Some("lsp") => {
            // --tool lsp <file> <method> [line ch [line2 ch2]]
            let text = std::fs::read_to_string(&args[1]).expect("read");
            let method = args[2].clone();
            let n = |i: usize| args.get(i).and_then(|s| s.parse::<u32>().ok()).unwrap_or(0);
            let mut ls = crate::ls::Ls::new(crate::ls::LsOpts { pull_diagnostics: true, ..Default::default() });
            let uri = crate::ls::uri_for("/virtual_tool/doc.lua");
            ls.notify("textDocument/didOpen", crate::ls::did_open(&uri, &text));
            ls.settle();
            let params = crate::ls::requests::valid_params(&method, &uri, n(3), n(4), n(5), n(6));
            let r = ls.call(1, &method, params);
            match r {
                Some(r) => println!("{}", serde_json::to_string_pretty(&serde_json::json!({"result": r.result, "error": r.error.map(|e| e.message)})).unwrap()),
                None => println!("no response; panics: {:?}", crate::engine::take_panics()),
            }
            0
        }
        // `nest-thresholds [kind ...]`: smallest depth per nesting kind whose parse kills a 2 MiB-stack worker
        Some("nest-thresholds") => {
            use crate::engine::{worker, Property, Verdict};
            use crate::props::c02::{Case, Input, C02, MAX_DEPTH};
            let root = std::path::PathBuf::from(std::env::var("VERIF_ROOT").unwrap_or_else(|_| "/verif".into()));
            let level: u8 = std::env::var("NEST_LEVEL").ok().and_then(|s| s.parse().ok()).unwrap_or(6);
            let mut child = worker::Child::spawn("C02", &root);
            let mut probe = |kind: &str, depth: u32, closed: bool| -> Option<String> {
                let case = Case { input: Input::Nest { kind: kind.to_string(), depth, closed, capped: false, filler: 0, period: 0 }, level, doc: true, ext: 0, cache: false, special: false };
                let req = serde_json::to_string(&case).unwrap();
                match child.call(&req, 300) {
                    worker::Reply::Line(_) => None,
                    worker::Reply::Died(how) => {
                        let tail = child.stderr_tail();
                        child.respawn();
                        match C02.on_abort(&case, &how, &tail, String::new()) {
                            Verdict::Fail(f) => Some(f.sig),
                            _ => Some("?".into()),
                        }
                    }
                    worker::Reply::Timeout => {
                        child.respawn();
                        Some("timeout".into())
                    }
                }
            };
            for k in crate::gens::nesting::KINDS {
                if args.len() > 1 && !args[1..].iter().any(|a| a == k.name) {
                    continue;
                }
                for closed in [true, false] {
                    if !closed && k.close.is_empty() {
                        continue;
                    }
                    match probe(k.name, MAX_DEPTH, closed) {
                        None => println!("{:22} closed={:5} no crash up to {}", k.name, closed, MAX_DEPTH),
                        Some(sig) => {
                            let (mut lo, mut hi) = (0u32, MAX_DEPTH); // lo passes, hi crashes
                            let mut last = sig;
                            while hi - lo > 1 {
                                let mid = lo + (hi - lo) / 2;
                                match probe(k.name, mid, closed) {
                                    None => lo = mid,
                                    Some(s) => {
                                        hi = mid;
                                        last = s;
                                    }
                                }
                            }
                            println!("{:22} closed={:5} min-crash-depth={:7} sig={}", k.name, closed, hi, last);
                        }
                    }
                }
            }
            0
        }
        Some("flow") => {
            // vcheck --tool flow <file.lua> [nostd]: inferred type at every __probe(id, x) + VM observations + diagnostics
            let text = std::fs::read_to_string(&args[1]).expect("read");
            let nostd = args.get(2).map(|s| s == "nostd").unwrap_or(false);
            let mut ws = if nostd { emmylua_code_analysis::VirtualWorkspace::new() } else { emmylua_code_analysis::VirtualWorkspace::new_with_init_std_lib() };
            let inf = crate::props::c15::infer_probes(&mut ws, &text).expect("analysis");
            let mut ids: Vec<&u32> = inf.keys().collect();
            ids.sort();
            for id in ids {
                match &inf[id] {
                    crate::props::c15::Inferred::Type(t) => println!("probe {id}: inferred {}   [{:?}]", crate::props::c15::show_type(&ws, t), t),
                    crate::props::c15::Inferred::Err(e) => println!("probe {id}: infer error {e}"),
                }
            }
            let mut vm = crate::oracle::luaexec::Vm::new();
            let used: Vec<u8> = (0..5u8).filter(|k| text.contains(&format!("__c{}", k + 1))).collect();
            for env in 0u8..32 {
                if (0..5u8).any(|k| env >> k & 1 == 1 && !used.contains(&k)) {
                    continue;
                }
                let opaque: Vec<bool> = (0..5).map(|k| env >> k & 1 == 1).collect();
                let (ev, end) = vm.run(&text, &opaque, 1_000_000);
                println!("env {:05b}: {:?} {:?}", env, ev, end);
            }
            let fid = ws.def_file("flow_case.lua", &text);
            for d in ws.analysis.diagnose_file(fid, tokio_util::sync::CancellationToken::new()).unwrap_or_default() {
                println!("diag {:?} {}:{} {}", d.code, d.range.start.line, d.range.start.character, d.message);
            }
            0
        }
        Some("ty") => crate::oracle::tyws::tool_main(&args[1..]),
        Some("fmt") => {
            // vcheck --tool fmt <file> [level] [config.json] [passes]
            let text = std::fs::read_to_string(&args[1]).expect("read");
            let level: u8 = args.get(2).and_then(|s| s.parse().ok()).unwrap_or(0);
            let cfg: emmylua_formatter::LuaFormatConfig = match args.get(3).filter(|s| s.as_str() != "-") {
                Some(p) => serde_json::from_str(&std::fs::read_to_string(p).expect("read cfg")).expect("cfg json"),
                None => Default::default(),
            };
            let passes: usize = args.get(4).and_then(|s| s.parse().ok()).unwrap_or(1);
            let mut t = text;
            for _ in 0..passes {
                t = crate::props::c05::run_formatter(&t, level, &cfg).unwrap_or_else(|e| format!("PANIC {e}"));
            }
            print!("{t}");
            0
        }
        Some("mkcase") => {
            // vcheck --tool mkcase <file> [level] [config.json] [selstart selend]  -> replay JSON for C05/C06 (C07 with a selection)
            let text = std::fs::read_to_string(&args[1]).expect("read");
            let level: u8 = args.get(2).and_then(|s| s.parse().ok()).unwrap_or(0);
            let cfg: emmylua_formatter::LuaFormatConfig = match args.get(3).filter(|s| s.as_str() != "-") {
                Some(p) => serde_json::from_str(&std::fs::read_to_string(p).expect("read cfg")).expect("cfg json"),
                None => Default::default(),
            };
            let mut case = serde_json::to_value(crate::gens::fmt_input::FmtCase { text, level, cfg, src: "manual".into() }).unwrap();
            if let (Some(a), Some(b)) = (args.get(4).and_then(|s| s.parse::<u32>().ok()), args.get(5).and_then(|s| s.parse::<u32>().ok())) {
                case["sel"] = serde_json::json!([a, b]);
                case["sel_kind"] = serde_json::json!("manual");
            }
            println!("{}", serde_json::to_string_pretty(&serde_json::json!({"property": "manual", "sig": "", "msg": "", "case": case})).unwrap());
            0
        }
        _ => {
            eprintln!("tools: parse | lua_ast | lsp | nest-thresholds | flow | ty | fmt | mkcase");
            2
        }
    }
}
