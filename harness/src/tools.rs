//! Debug helpers: `vcheck --tool parse <file> [level] [doc]`
use emmylua_parser::{LuaParser};

pub fn main(args: &[String]) -> i32 {
    match args.first().map(|s| s.as_str()) {
        Some("parse") => {
            let text = std::fs::read_to_string(&args[1]).expect("read");
            let level: u8 = args.get(2).and_then(|s| s.parse().ok()).unwrap_or(0);
            let doc = args.get(3).map(|s| s != "0").unwrap_or(true);
            let cfg = crate::props::c01::parser_config(level, doc, 0, None);
            let tree = LuaParser::parse(&text, cfg);
            println!("{:#?}", tree.get_red_root());
            for e in tree.get_errors() {
                println!("ERR {:?} {:?} {}", e.kind, e.range, e.message);
            }
            println!("lossless: {:?}", crate::props::c01::lossless(&text, &tree));
            0
        }
        Some("ty") => crate::oracle::tyws::tool_main(&args[1..]),
        _ => {
            eprintln!("tools: parse | ty <file.lua> [prelude.lua]");
            2
        }
    }
}
