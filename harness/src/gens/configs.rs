//! Configuration generators: the real `Emmyrc` key space (taken from resources/schema.json), values per kind,
//! dotted/nested spellings, path strings.
use proptest::prelude::*;
use serde::{Deserialize, Serialize};
use serde_json::{json, Map, Value};

#[derive(Clone, Copy, Debug, PartialEq)]
pub enum Kind {
    Bool,
    Str,
    OptStr,
    Int,
    OptInt,
    /// `u8` or null (hover.customDetail)
    OptU8,
    Enum(&'static [&'static str]),
    StrArr,
    EnumArr(&'static [&'static str]),
    /// array of path strings (pre-processed)
    PathArr,
    /// array of path strings or `{path, ignoreDir, ignoreGlobs}` objects (pre-processed)
    PathItemArr,
    ModuleMap,
    /// object with free sub keys and enumerated values
    Map(&'static [&'static str], &'static [&'static str]),
    /// `{program, args, timeout}` or null
    ExtTool,
}

pub struct KeyDef {
    pub sec: &'static str,
    pub key: &'static str,
    pub kind: Kind,
}

pub const DIAG_CODES: &[&str] = &[
    "syntax-error", "doc-syntax-error", "type-not-found", "missing-return", "param-type-mismatch", "missing-parameter", "unused",
    "undefined-global", "deprecated", "undefined-field", "need-check-nil", "await-in-sync", "unresolved-require", "missing-fields",
];
const SEVERITIES: &[&str] = &["error", "warning", "information", "hint"];
const VERSIONS: &[&str] = &["Lua5.1", "LuaJIT", "LuaJIT2", "LuaJIT3", "Lua5.2", "Lua5.3", "Lua5.4", "Lua5.5", "LuaLatest", "Lua 5.1", "Lua 5.4"];
const NONSTD: &[&str] = &["//", "/**/", "`", "+=", "-=", "*=", "/=", "%=", "^=", "//=", "|=", "&=", "<<=", ">>=", "||", "&&", "!", "!=", "continue"];
const SPECIALS: &[&str] = &["none", "require", "error", "assert", "type", "setmetatable"];
const NAMING: &[&str] = &["keep", "snake-case", "pascal-case", "camel-case", "keep-class"];
const SYNTAXES: &[&str] = &["none", "md", "myst", "rst"];
const IDS: &[&str] = &["myreq", "import", "include", "try", "klass", "x", "y1"];

macro_rules! k {
    ($s:expr, $k:expr, $kind:expr) => {
        KeyDef { sec: $s, key: $k, kind: $kind }
    };
}

/// every key of resources/schema.json (except `$schema`)
pub const KEYS: &[KeyDef] = &[
    k!("codeAction", "insertSpace", Kind::Bool),
    k!("codeLens", "enable", Kind::Bool),
    k!("completion", "autoRequire", Kind::Bool),
    k!("completion", "autoRequireFunction", Kind::Str),
    k!("completion", "autoRequireNamingConvention", Kind::Enum(NAMING)),
    k!("completion", "autoRequireSeparator", Kind::Str),
    k!("completion", "baseFunctionIncludesName", Kind::Bool),
    k!("completion", "callSnippet", Kind::Bool),
    k!("completion", "enable", Kind::Bool),
    k!("completion", "postfix", Kind::Str),
    k!("diagnostics", "diagnosticInterval", Kind::OptInt),
    k!("diagnostics", "disable", Kind::EnumArr(DIAG_CODES)),
    k!("diagnostics", "enable", Kind::Bool),
    k!("diagnostics", "enables", Kind::EnumArr(DIAG_CODES)),
    k!("diagnostics", "globals", Kind::StrArr),
    k!("diagnostics", "globalsRegex", Kind::StrArr),
    k!("diagnostics", "severity", Kind::Map(DIAG_CODES, SEVERITIES)),
    k!("doc", "knownTags", Kind::StrArr),
    k!("doc", "privateName", Kind::StrArr),
    k!("doc", "rstDefaultRole", Kind::OptStr),
    k!("doc", "rstPrimaryDomain", Kind::OptStr),
    k!("doc", "syntax", Kind::Enum(SYNTAXES)),
    k!("documentColor", "enable", Kind::Bool),
    k!("format", "externalTool", Kind::ExtTool),
    k!("format", "externalToolRangeFormat", Kind::ExtTool),
    k!("format", "useDiff", Kind::Bool),
    k!("hint", "enable", Kind::Bool),
    k!("hint", "enumParamHint", Kind::Bool),
    k!("hint", "indexHint", Kind::Bool),
    k!("hint", "localHint", Kind::Bool),
    k!("hint", "metaCallHint", Kind::Bool),
    k!("hint", "overrideHint", Kind::Bool),
    k!("hint", "paramHint", Kind::Bool),
    k!("hover", "customDetail", Kind::OptU8),
    k!("hover", "enable", Kind::Bool),
    k!("inlineValues", "enable", Kind::Bool),
    k!("references", "enable", Kind::Bool),
    k!("references", "fuzzySearch", Kind::Bool),
    k!("references", "shortStringSearch", Kind::Bool),
    k!("resource", "paths", Kind::PathArr),
    k!("runtime", "extensions", Kind::StrArr),
    k!("runtime", "frameworkVersions", Kind::StrArr),
    k!("runtime", "nonstandardSymbol", Kind::EnumArr(NONSTD)),
    k!("runtime", "requireLikeFunction", Kind::StrArr),
    k!("runtime", "requirePattern", Kind::StrArr),
    k!("runtime", "special", Kind::Map(IDS, SPECIALS)),
    k!("runtime", "version", Kind::Enum(VERSIONS)),
    k!("semanticTokens", "enable", Kind::Bool),
    k!("semanticTokens", "renderDocumentationMarkup", Kind::Bool),
    k!("signature", "detailSignatureHelper", Kind::Bool),
    k!("strict", "arrayIndex", Kind::Bool),
    k!("strict", "docBaseConstMatchBaseType", Kind::Bool),
    k!("strict", "metaOverrideFileDefine", Kind::Bool),
    k!("strict", "requirePath", Kind::Bool),
    k!("strict", "typeCall", Kind::Bool),
    k!("workspace", "enableReindex", Kind::Bool),
    k!("workspace", "encoding", Kind::Str),
    k!("workspace", "ignoreDir", Kind::PathArr),
    k!("workspace", "ignoreGlobs", Kind::StrArr),
    k!("workspace", "library", Kind::PathItemArr),
    k!("workspace", "moduleMap", Kind::ModuleMap),
    k!("workspace", "packages", Kind::PathItemArr),
    k!("workspace", "preloadFileSize", Kind::Int),
    k!("workspace", "reindexDuration", Kind::Int),
    k!("workspace", "workspaceRoots", Kind::PathArr),
];

const WORDS: &[&str] = &["", "a", "b", "lib", "src", "test", "utf-8", "gbk", "require", "@", ".", "x.y", "名", "é", "**/*.lua", "?.lua", "?/init.lua", ".lua.txt"];

/// ordinary (well-behaved) path strings: used where pre-processing is not the subject
pub const PLAIN_PATHS: &[&str] = &["lib", "src", "./vendor", "/usr/share/lua/5.4", "${workspaceFolder}/lib", "a/b", "~/lua", "types"];

/// path strings for the pre-processor: home references, relative forms, placeholders, env vars, non-ASCII, odd shapes
pub const ODD_PATHS: &[&str] = &[
    "~", "~x", "~é", "~/", "~/x", "~\\x", "~~", "~名", "~/é/名", "./", "./x", ".", "", "..", "../x", "/", "/abs/x", "//", "a b",
    "${workspaceFolder}", "${workspaceFolder}/lib", "{workspaceFolder}", "${workspaceFolder", "$workspaceFolder", "$HOME", "$HOME/x",
    "$VERIF_P_UNSET", "$VERIF_P_TILDE", "$VERIF_P_TILDE_UNI", "$VERIF_P_EMPTY", "$VERIF_P_UNI/x", "$VERIF_P_DOLLAR", "$", "$$", "${", "${}", "{", "}", "{}",
    "{env:HOME}", "{env:VERIF_P_UNSET}", "{env:VERIF_P_TILDE}", "{env:}", "{env:A=B}", "{env:\u{0}}", "{env:é}", "${env:HOME}/x", "{luarocks}",
    "${luarocks}/x", "{unknown}", "{env:HOME", "名前/ライブラリ", "é", "$é", "$1", "$_", "C:\\x", "\\\\srv\\x", "x\u{0}y", "~$HOME", "${3rd}/x", "~{env:HOME}",
    "$~", "{workspaceFolder}{workspaceFolder}", "\u{feff}~", " ~", "~ ", "\u{1F600}", "~\u{1F600}",
];
const PATH_ATOMS: &[&str] = &["~", "/", ".", "$", "{", "}", "env:", "workspaceFolder", "luarocks", "é", "x", "HOME", "VERIF_P_TILDE", "\\", " ", "名", ":", "="];

pub fn odd_path() -> BoxedStrategy<String> {
    prop_oneof![
        6 => (0..ODD_PATHS.len()).prop_map(|i| ODD_PATHS[i].to_string()),
        2 => proptest::collection::vec(0..PATH_ATOMS.len(), 1..5).prop_map(|v| v.into_iter().map(|i| PATH_ATOMS[i]).collect::<String>()),
        1 => (0..PLAIN_PATHS.len()).prop_map(|i| PLAIN_PATHS[i].to_string()),
    ]
    .boxed()
}

pub fn plain_path() -> BoxedStrategy<String> {
    (0..PLAIN_PATHS.len()).prop_map(|i| PLAIN_PATHS[i].to_string()).boxed()
}

fn word() -> BoxedStrategy<Value> {
    (0..WORDS.len()).prop_map(|i| Value::String(WORDS[i].to_string())).boxed()
}

fn one_of(items: &'static [&'static str]) -> BoxedStrategy<Value> {
    (0..items.len()).prop_map(move |i| Value::String(items[i].to_string())).boxed()
}

fn arr(item: BoxedStrategy<Value>, max: usize) -> BoxedStrategy<Value> {
    proptest::collection::vec(item, 0..max).prop_map(Value::Array).boxed()
}

fn path_item(path: BoxedStrategy<String>) -> BoxedStrategy<Value> {
    let p2 = path.clone();
    prop_oneof![
        3 => path.clone().prop_map(Value::String),
        1 => (path, proptest::collection::vec(p2, 0..3), proptest::collection::vec(word(), 0..2), 0u8..4).prop_map(|(p, ig, gl, shape)| {
            let mut m = Map::new();
            m.insert("path".into(), Value::String(p));
            if shape & 1 == 0 {
                m.insert("ignoreDir".into(), Value::Array(ig.into_iter().map(Value::String).collect()));
            }
            if shape & 2 == 0 {
                m.insert("ignoreGlobs".into(), Value::Array(gl));
            }
            Value::Object(m)
        }),
    ]
    .boxed()
}

/// a well-typed value for a key; `paths` supplies the path strings of path-valued keys.
/// `allow_null`: Opt* / ExtTool kinds may produce `null`.
pub fn value_for(kind: Kind, paths: BoxedStrategy<String>, allow_null: bool) -> BoxedStrategy<Value> {
    match kind {
        Kind::Bool => any::<bool>().prop_map(Value::Bool).boxed(),
        Kind::Str => word(),
        Kind::OptStr => {
            if allow_null {
                prop_oneof![4 => word(), 1 => Just(Value::Null)].boxed()
            } else {
                word()
            }
        }
        Kind::Int => prop_oneof![Just(json!(0)), Just(json!(1)), Just(json!(5000)), (0u32..100000).prop_map(|n| json!(n))].boxed(),
        Kind::OptInt => {
            let n = prop_oneof![Just(json!(0)), Just(json!(500)), (0u32..100000).prop_map(|n| json!(n))];
            if allow_null {
                prop_oneof![4 => n, 1 => Just(Value::Null)].boxed()
            } else {
                n.boxed()
            }
        }
        Kind::OptU8 => {
            let n = prop_oneof![Just(json!(0)), Just(json!(255)), (0u32..256).prop_map(|n| json!(n))];
            if allow_null {
                prop_oneof![4 => n, 1 => Just(Value::Null)].boxed()
            } else {
                n.boxed()
            }
        }
        Kind::Enum(items) => one_of(items),
        Kind::StrArr => arr(word(), 5),
        Kind::EnumArr(items) => arr(one_of(items), 5),
        Kind::PathArr => arr(paths.prop_map(Value::String).boxed(), 4),
        Kind::PathItemArr => arr(path_item(paths), 4),
        Kind::ModuleMap => arr(
            (0..4usize, 0..4usize)
                .prop_map(|(a, b)| {
                    let pattern = ["^lib(.*)$", "^(.*)$", "^a%.b$", "("][a];
                    let replace = ["script$1", "module_$1", "c", "$9"][b];
                    json!({"pattern": pattern, "replace": replace})
                })
                .boxed(),
            3,
        ),
        Kind::Map(subs, vals) => proptest::collection::vec((0..subs.len(), 0..vals.len()), 1..4)
            .prop_map(move |v| {
                let mut m = Map::new();
                for (s, x) in v {
                    m.insert(subs[s].to_string(), Value::String(vals[x].to_string()));
                }
                Value::Object(m)
            })
            .boxed(),
        Kind::ExtTool => {
            let obj = (0..3usize, proptest::collection::vec(word(), 0..3), 0u8..8).prop_map(|(p, args, shape)| {
                let mut m = Map::new();
                // `program` always present so the object never flattens to nothing
                m.insert("program".into(), Value::String(["stylua", "lua-format", ""][p].to_string()));
                if shape & 1 == 0 {
                    m.insert("args".into(), Value::Array(args));
                }
                if shape & 2 == 0 {
                    m.insert("timeout".into(), json!(1000 + shape as u32));
                }
                Value::Object(m)
            });
            if allow_null {
                prop_oneof![4 => obj, 1 => Just(Value::Null)].boxed()
            } else {
                obj.boxed()
            }
        }
    }
}

/// arbitrary small JSON (wrong-typed values, junk)
pub fn any_json(depth: u32) -> BoxedStrategy<Value> {
    let leaf = prop_oneof![
        Just(Value::Null),
        any::<bool>().prop_map(Value::Bool),
        Just(json!(0)),
        Just(json!(-1)),
        Just(json!(1.5)),
        Just(json!(1e300)),
        Just(json!(18446744073709551615u64)),
        Just(json!(-9223372036854775808i64)),
        word(),
        Just(json!("~")),
        Just(json!([])),
        Just(json!({})),
    ];
    if depth == 0 {
        return leaf.boxed();
    }
    let inner = any_json(depth - 1);
    let inner2 = inner.clone();
    prop_oneof![
        6 => leaf,
        2 => proptest::collection::vec(inner, 0..3).prop_map(Value::Array),
        2 => proptest::collection::vec((junk_key(), inner2), 0..3).prop_map(|kv| Value::Object(kv.into_iter().collect())),
    ]
    .boxed()
}

pub fn junk_key() -> BoxedStrategy<String> {
    const J: &[&str] = &["", ".", "..", "a", "a.b", "a.", ".a", "a..b", "enable", "path", "diagnostics", "diagnostics.enable", "workspace.library", "$schema", "名", "a b", "0", "-", "severity.unused"];
    (0..J.len()).prop_map(|i| J[i].to_string()).boxed()
}

/// One setting: segments of its key path and a value.
#[derive(Clone, Debug, Serialize, Deserialize, PartialEq)]
pub struct Setting {
    pub segs: Vec<String>,
    /// bit i set = the joint between segment i and i+1 is spelled with a dot (flat); clear = nested object
    pub mask: u8,
    pub value: Value,
}

impl Setting {
    pub fn dotted(&self) -> String {
        self.segs.join(".")
    }
    /// key groups after applying the spelling
    pub fn groups(&self) -> Vec<String> {
        groups(&self.segs, self.mask)
    }
}

pub fn groups(segs: &[String], mask: u8) -> Vec<String> {
    let mut out: Vec<String> = vec![];
    for (i, s) in segs.iter().enumerate() {
        if i > 0 && mask & (1 << (i - 1)) != 0 {
            let last = out.last_mut().unwrap();
            last.push('.');
            last.push_str(s);
        } else {
            out.push(s.clone());
        }
    }
    out
}

/// Well-typed setting of key `ki`.  Map/ExtTool keys are sometimes addressed through a sub key (3 segments).
pub fn setting_of(ki: usize, paths: BoxedStrategy<String>, allow_null: bool) -> BoxedStrategy<Setting> {
    let def = &KEYS[ki];
    let base = vec![def.sec.to_string(), def.key.to_string()];
    let whole = {
        let base = base.clone();
        (value_for(def.kind, paths, allow_null), any::<u8>()).prop_map(move |(value, mask)| Setting { segs: base.clone(), mask, value }).boxed()
    };
    match def.kind {
        Kind::Map(subs, vals) => {
            let b = base.clone();
            let sub = (0..subs.len(), 0..vals.len(), any::<u8>()).prop_map(move |(s, v, mask)| {
                let mut segs = b.clone();
                segs.push(subs[s].to_string());
                Setting { segs, mask, value: Value::String(vals[v].to_string()) }
            });
            prop_oneof![1 => whole, 2 => sub].boxed()
        }
        Kind::ExtTool => {
            let b = base.clone();
            let sub = (0..3usize, any::<u8>()).prop_map(move |(s, mask)| {
                let mut segs = b.clone();
                let (k, v) = [("program", json!("stylua")), ("timeout", json!(1234)), ("args", json!(["-", "a"]))][s].clone();
                segs.push(k.to_string());
                Setting { segs, mask, value: v }
            });
            prop_oneof![1 => whole, 1 => sub].boxed()
        }
        _ => whole,
    }
}

/// insert `value` under the key groups into a nested JSON object (no duplicate keys: objects merge, anything else is replaced)
pub fn insert_groups(obj: &mut Map<String, Value>, groups: &[String], value: Value) {
    if groups.len() == 1 {
        match (obj.get_mut(&groups[0]), value) {
            (Some(Value::Object(old)), Value::Object(new)) => {
                for (k, v) in new {
                    insert_groups(old, &[k], v);
                }
            }
            (_, value) => {
                obj.insert(groups[0].clone(), value);
            }
        }
        return;
    }
    let slot = obj.entry(groups[0].clone()).or_insert_with(|| Value::Object(Map::new()));
    if !slot.is_object() {
        *slot = Value::Object(Map::new());
    }
    insert_groups(slot.as_object_mut().unwrap(), &groups[1..], value);
}

/// the JSON object of a file made of settings in their spellings
pub fn file_object(settings: &[Setting]) -> Value {
    let mut m = Map::new();
    for s in settings {
        insert_groups(&mut m, &s.groups(), s.value.clone());
    }
    Value::Object(m)
}

/// Render a JSON value as a Lua table constructor (objects -> `["k"] = v`, arrays -> sequences).
pub fn to_lua(v: &Value) -> String {
    match v {
        Value::Null => "nil".into(),
        Value::Bool(b) => b.to_string(),
        Value::Number(n) => n.to_string(),
        Value::String(s) => lua_string(s),
        Value::Array(a) => format!("{{{}}}", a.iter().map(to_lua).collect::<Vec<_>>().join(", ")),
        Value::Object(m) => format!("{{{}}}", m.iter().map(|(k, v)| format!("[{}] = {}", lua_string(k), to_lua(v))).collect::<Vec<_>>().join(", ")),
    }
}

pub fn lua_string(s: &str) -> String {
    let mut out = String::from("\"");
    for b in s.bytes() {
        match b {
            b'"' => out.push_str("\\\""),
            b'\\' => out.push_str("\\\\"),
            b'\n' => out.push_str("\\n"),
            b'\r' => out.push_str("\\r"),
            0 => out.push_str("\\0"),
            0x20..=0x7e => out.push(b as char),
            _ => out.push_str(&format!("\\{:03}", b)),
        }
    }
    out.push('"');
    out
}
