use proptest::prelude::*;

/// monotone index mapping (shrinks towards 0 without stalling)
pub fn idx(raw: u16, len: usize) -> usize {
    if len == 0 {
        0
    } else {
        ((raw as usize) * len) >> 16
    }
}

pub fn select_str(items: &'static [&'static str]) -> impl Strategy<Value = &'static str> {
    (0..items.len()).prop_map(move |i| items[i])
}

/// all 8 language levels by index
pub fn level(i: u8) -> emmylua_parser::LuaLanguageLevel {
    use emmylua_parser::LuaLanguageLevel::*;
    match i % 8 {
        0 => Lua55,
        1 => Lua54,
        2 => Lua53,
        3 => Lua52,
        4 => Lua51,
        5 => LuaJIT,
        6 => LuaJIT2,
        _ => LuaJIT3,
    }
}

pub fn level_name(i: u8) -> &'static str {
    match i % 8 {
        0 => "Lua55",
        1 => "Lua54",
        2 => "Lua53",
        3 => "Lua52",
        4 => "Lua51",
        5 => "LuaJIT",
        6 => "LuaJIT2",
        _ => "LuaJIT3",
    }
}

/// corpus directory (real Lua files shipped with the repository, copied at design time)
pub fn corpus_files() -> Vec<(String, String)> {
    let root = std::env::var("VERIF_ROOT").unwrap_or_else(|_| "/verif".to_string());
    let mut out = vec![];
    for sub in ["corpus/std", "corpus/snippets"] {
        let dir = std::path::Path::new(&root).join(sub);
        if let Ok(rd) = std::fs::read_dir(&dir) {
            let mut names: Vec<_> = rd.filter_map(|e| e.ok()).map(|e| e.path()).collect();
            names.sort();
            for p in names {
                if let Ok(t) = std::fs::read_to_string(&p) {
                    out.push((p.file_name().unwrap().to_string_lossy().to_string(), t));
                }
            }
        }
    }
    out
}

/// Mutation operator on a text at char boundaries, driven by raw numbers (shrinks towards "no-op at 0").
#[derive(Clone, Debug, serde::Serialize, serde::Deserialize)]
pub enum Mut {
    Delete(u16, u8),
    Dup(u16, u8),
    Swap(u16, u16, u8),
    Insert(u16, String),
    Truncate(u16),
}

fn boundary(s: &str, mut i: usize) -> usize {
    if i > s.len() {
        i = s.len();
    }
    while !s.is_char_boundary(i) {
        i -= 1;
    }
    i
}

pub fn apply_mut(s: &str, m: &Mut) -> String {
    let at = |raw: u16| boundary(s, idx(raw, s.len() + 1));
    match m {
        Mut::Delete(p, n) => {
            let a = at(*p);
            let b = boundary(s, a + *n as usize);
            format!("{}{}", &s[..a], &s[b.max(a)..])
        }
        Mut::Dup(p, n) => {
            let a = at(*p);
            let b = boundary(s, a + *n as usize).max(a);
            format!("{}{}{}", &s[..b], &s[a..b], &s[b..])
        }
        Mut::Swap(p, q, n) => {
            let (mut a, mut c) = (at(*p), at(*q));
            if a > c {
                std::mem::swap(&mut a, &mut c);
            }
            let b = boundary(s, a + *n as usize).max(a).min(c);
            let d = boundary(s, c + *n as usize).max(c);
            format!("{}{}{}{}{}", &s[..a], &s[c..d], &s[b..c], &s[a..b], &s[d..])
        }
        Mut::Insert(p, t) => {
            let a = at(*p);
            format!("{}{}{}", &s[..a], t, &s[a..])
        }
        Mut::Truncate(p) => s[..at(*p)].to_string(),
    }
}

pub fn mut_strategy() -> impl Strategy<Value = Mut> {
    prop_oneof![
        (any::<u16>(), 1u8..40).prop_map(|(p, n)| Mut::Delete(p, n)),
        (any::<u16>(), 1u8..40).prop_map(|(p, n)| Mut::Dup(p, n)),
        (any::<u16>(), any::<u16>(), 1u8..30).prop_map(|(p, q, n)| Mut::Swap(p, q, n)),
        (any::<u16>(), crate::gens::soup::fragment()).prop_map(|(p, t)| Mut::Insert(p, t.to_string())),
        any::<u16>().prop_map(Mut::Truncate),
    ]
}

/// ddmin-style candidates for a text: remove one chunk (sizes len/2, len/4, … 1) at char boundaries
pub fn text_simplify(s: &str) -> Vec<String> {
    let mut out = vec![];
    let n = s.len();
    if n == 0 {
        return out;
    }
    let mut chunk = n.div_ceil(2);
    loop {
        let mut a = 0;
        while a < n {
            let mut b = (a + chunk).min(n);
            while !s.is_char_boundary(b) {
                b += 1;
            }
            let mut a2 = a;
            while !s.is_char_boundary(a2) {
                a2 -= 1;
            }
            if b > a2 {
                out.push(format!("{}{}", &s[..a2], &s[b..]));
            }
            a = b.max(a + 1);
            if out.len() > 400 {
                return out;
            }
        }
        if chunk == 1 {
            break;
        }
        chunk = chunk.div_ceil(2).max(1);
        if chunk == 1 && n > 200 {
            // single-char removal only for short texts
            break;
        }
    }
    out
}
