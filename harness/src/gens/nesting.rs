//! Nesting generator: one syntactic construct nested (or chained) `depth` times, closed or left open.
//! `KINDS` is the table; a case is (kind index, depth, closed).  Text = prefix + open^d + core + close^d + suffix.
use proptest::prelude::*;

pub struct Kind {
    pub name: &'static str,
    pub prefix: &'static str,
    pub open: &'static str,
    pub core: &'static str,
    pub close: &'static str,
    pub suffix: &'static str,
    /// true for doc-comment constructs (need `enable_emmylua_doc`)
    pub doc: bool,
}

const fn k(name: &'static str, prefix: &'static str, open: &'static str, core: &'static str, close: &'static str, suffix: &'static str, doc: bool) -> Kind {
    Kind { name, prefix, open, core, close, suffix, doc }
}

pub const KINDS: &[Kind] = &[
    // ---- Lua expressions
    k("paren", "local x = ", "(", "1", ")", "\n", false),
    k("table", "local x = ", "{", "", "}", "\n", false),
    k("table-field", "x = ", "{a=", "1", "}", "\n", false),
    k("table-key", "x = ", "{[", "1", "]=1}", "\n", false),
    k("closure", "x = ", "function() return ", "1", " end", "\n", false),
    k("unary-not", "x = ", "not ", "a", "", "\n", false),
    k("unary-minus", "x = ", "- ", "a", "", "\n", false),
    k("concat-chain", "x = ", "a..", "a", "", "\n", false),
    k("pow-chain", "x = ", "a^", "a", "", "\n", false),
    k("add-chain", "x = ", "a+", "a", "", "\n", false),
    k("or-chain", "x = ", "a or ", "a", "", "\n", false),
    // spaced: every BinaryExpr has 5 children, so rowan's NodeCache does not intern the chain (parse stays linear)
    k("add-chain-spaced", "x = ", "a + ", "a", "", "\n", false),
    k("index-chain", "x = a", ".b", "", "", "\n", false),
    k("call-chain", "a", "()", "", "", "\n", false),
    k("method-chain", "a", ":b()", "", "", "\n", false),
    k("string-call-chain", "a", "''", "", "", "\n", false),
    k("call-nest", "", "f(", "", ")", "\n", false),
    k("index-nest", "x = ", "a[", "1", "]", "\n", false),
    // LuaJIT-extension levels only (plain errors elsewhere)
    k("ternary", "x = ", "a ? a : ", "a", "", "\n", false),
    k("ternary-then", "x = ", "a ? ", "a", " : a", "\n", false),
    k("short-fn", "x = ", "y -> ", "y", "", "\n", false),
    k("short-fn-block", "x = ", "|y| -> do return ", "y", " end", "\n", false),
    k("safe-nav-chain", "x = a", "?.b", "", "", "\n", false),
    // ---- Lua statements
    k("func-body", "", "function f() ", "", "end ", "\n", false),
    k("do-block", "", "do ", "", "end ", "\n", false),
    k("if-block", "", "if x then ", "", "end ", "\n", false),
    k("else-block", "", "if x then else ", "", "end ", "\n", false),
    k("while-block", "", "while x do ", "", "end ", "\n", false),
    k("repeat-block", "", "repeat ", "", "until x ", "\n", false),
    k("for-block", "", "for i=1,2 do ", "", "end ", "\n", false),
    k("forin-block", "", "for k in p do ", "", "end ", "\n", false),
    k("elseif-chain", "if x then ", "elseif x then ", "", "", "end\n", false),
    // ---- doc types (one doc line)
    k("doc-generic", "---@type ", "A<", "A", ">", "\n", true),
    k("doc-paren", "---@type ", "(", "A", ")", "\n", true),
    k("doc-union-paren", "---@type ", "(A|", "A", ")", "\n", true),
    k("doc-union-chain", "---@type ", "A|", "A", "", "\n", true),
    k("doc-inter-chain", "---@type ", "A&", "A", "", "\n", true),
    k("doc-fun-ret", "---@type ", "fun():", "A", "", "\n", true),
    k("doc-fun-param", "---@type ", "fun(a:", "A", ")", "\n", true),
    k("doc-array", "---@type A", "[]", "", "", "\n", true),
    k("doc-tuple", "---@type ", "[", "A", "]", "\n", true),
    k("doc-object", "---@type ", "{a:", "A", "}", "\n", true),
    k("doc-object-key", "---@type ", "{[", "A", "]:A}", "\n", true),
    k("doc-keyof", "---@type ", "keyof ", "A", "", "\n", true),
    k("doc-nullable", "---@type A", "?", "", "", "\n", true),
    k("doc-index-access", "---@type A", "[A", "", "]", "\n", true),
    k("doc-cond", "---@type ", "A extends B and ", "C", " or D", "\n", true),
    k("doc-param-generic", "---@param x ", "A<", "A", ">", "\nlocal function f(x) end\n", true),
    k("doc-return-fun", "---@return ", "fun():", "A", "", "\nlocal function f() end\n", true),
    k("doc-multiline-union", "---@alias X\n", "---| (", "A", ")", "\n", true),
];

pub fn kind_index(name: &str) -> Option<usize> {
    KINDS.iter().position(|k| k.name == name)
}

pub fn kind_name(i: usize) -> &'static str {
    KINDS[i % KINDS.len()].name
}

pub fn render(kind: usize, depth: u32, closed: bool) -> String {
    let k = &KINDS[kind % KINDS.len()];
    let d = depth as usize;
    let mut s = String::with_capacity(k.prefix.len() + d * (k.open.len() + k.close.len()) + k.core.len() + k.suffix.len());
    s.push_str(k.prefix);
    for _ in 0..d {
        s.push_str(k.open);
    }
    s.push_str(k.core);
    if closed {
        for _ in 0..d {
            s.push_str(k.close);
        }
    }
    s.push_str(k.suffix);
    s
}

/// depth log-uniform in 1..=max: exponent e uniform, mantissa uniform within [2^e, 2^(e+1))
pub fn depth_strategy(max: u32) -> impl Strategy<Value = u32> {
    let max = max.max(1);
    let top = 32 - max.leading_zeros(); // number of bits
    (0..top, any::<u32>()).prop_map(move |(e, m)| {
        let lo = 1u32 << e;
        let span = lo; // [lo, 2*lo)
        (lo + m % span).min(max)
    })
}

/// (kind, depth, closed)
pub fn nesting(max_depth: u32) -> impl Strategy<Value = (usize, u32, bool)> {
    (0..KINDS.len(), depth_strategy(max_depth), any::<bool>())
}

/// comment lines put between nesting levels (index 0 = none): plain, well-formed doc tags, doc tags whose type is cut off
pub const FILLERS: &[&str] = &["", "-- c", "---@type (", "---@type string", "---@param", "---@class", "--[[ x ]]", "---@type fun(", "---@return A<", "--- text `", "---@type {a:", "---@cast x [", "---@generic T :", "---@alias A (A|"];

/// like `render`, with the comment line `FILLERS[filler]` on a line of its own after every `period` levels
/// (doc-type kinds are one comment line themselves and take no filler)
pub fn render_with(kind: usize, depth: u32, closed: bool, filler: u8, period: u16) -> String {
    let k = &KINDS[kind % KINDS.len()];
    let f = FILLERS[filler as usize % FILLERS.len()];
    if f.is_empty() || k.doc || period == 0 {
        return render(kind, depth, closed);
    }
    let mut s = String::new();
    s.push_str(k.prefix);
    for i in 0..depth as usize {
        s.push_str(k.open);
        if (i + 1) % period as usize == 0 {
            s.push('\n');
            s.push_str(f);
            s.push('\n');
        }
    }
    s.push_str(k.core);
    if closed {
        for _ in 0..depth {
            s.push_str(k.close);
        }
    }
    s.push_str(k.suffix);
    s
}
