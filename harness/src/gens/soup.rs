//! Token soup: sequences over an alphabet of Lua / EmmyLua-doc fragments, including the unusual ones.
use proptest::prelude::*;

pub const FRAGMENTS: &[&str] = &[
    // keywords
    "and", "break", "do", "else", "elseif", "end", "false", "for", "function", "goto", "if", "in", "local", "nil", "not", "or",
    "repeat", "return", "then", "true", "until", "while", "global", "continue", "const",
    // names
    "a", "b", "x", "foo", "_", "self", "t", "f", "é", "名",
    // operators / punctuation
    "+", "-", "*", "/", "//", "%", "^", "#", "&", "~", "|", "<<", ">>", "==", "~=", "<=", ">=", "<", ">", "=", "(", ")", "{", "}",
    "[", "]", "::", ";", ":", ",", ".", "..", "...", "+=", "-=", "||", "&&", "!", "!=", "?", "?.", "??", "->", "`", "@", "$", "\\",
    // numbers
    "0", "1", "3.", ".5", "0x", "0xA", "0x.1p-2", "1e", "1e+5", "3..2", "0LL", "0b101", "1_000", "12i", "0xffffffffffffffffff",
    // strings
    "\"s\"", "'s'", "\"a\\nb\"", "'\\q'", "'\\u{7FFFFFFF}'", "\"\\z  x\"", "\"unterminated", "'unterminated", "\"\\", "[[long]]",
    "[==[lo]]ng]==]", "[[unterminated", "[=[", "]]", "]==]", "\"\\x4\"", "'\\300'", "`tpl ${x}`",
    // comments
    "--", "-- c", "--[[ c ]]", "--[==[ c ]==]", "--[[ unterminated", "---", "--- doc", "---@", "---|", "---| 'a' # d", "--region r",
    "--endregion", "--region", "/* c */", "// c", "#!shebang",
    // doc tags and doc types
    "---@class A", "---@class A: B, C", "---@class A<T>", "---@field x integer", "---@field [string] any", "---@param x string",
    "---@param ... any", "---@return integer, string", "---@type ", "---@alias X ", "---@generic T", "---@generic T : A", "---@overload fun(a: integer): string",
    "---@enum E", "---@cast x +string", "---@diagnostic disable-next-line: unused", "---@operator add(A): A", "---@meta", "---@see a#b",
    "---@as string", "---@module 'm'", "---@namespace N", "---@using N", "---@version >5.3", "---@source f.lua:1", "---@nodiscard",
    "---@deprecated", "---@async", "---@private", "---@language lua", "---@attribute a", "---@[a]", "---@export", "---@readonly",
    "string", "integer", "string?", "string[]", "table<string, integer>", "fun(a: string): integer", "{ x: integer, y?: string }",
    "[integer, string]", "A<B<C>>", "\"lit\"", "'lit'", "A | B", "A & B", "(A | B)[]", "`T`", "keyof A", "A extends B and C or D",
    "...: any", "```lua", "```", "<", ">", "# desc", "@*a*", "{@link x}", "T...",
    // whitespace and line ends
    " ", "  ", "\t", "\n", "\n\n", "\r\n", "\r", "\n  ", "\u{000B}", "\u{000C}",
    // unusual characters
    "\u{0}", "\u{FEFF}", "\u{00A0}", "\u{2028}", "\u{200B}", "😀", "𝒳", "\u{7f}", "\u{1}", "\u{FFFD}", "\u{0301}",
];

pub fn fragment() -> impl Strategy<Value = &'static str> {
    (0..FRAGMENTS.len()).prop_map(|i| FRAGMENTS[i])
}

/// soup of up to `max` fragments; separator policy generated per case
pub fn soup(max: usize) -> impl Strategy<Value = String> {
    (proptest::collection::vec((fragment(), 0u8..6), 0..max), 0u8..4).prop_map(|(frags, policy)| {
        let mut s = String::new();
        for (f, sep) in frags {
            s.push_str(f);
            match (policy, sep) {
                (0, _) => {}
                (1, _) => s.push(' '),
                (2, 0) => s.push('\n'),
                (2, _) => s.push(' '),
                (_, 0) => {}
                (_, 1) => s.push('\n'),
                (_, _) => s.push(' '),
            }
        }
        s
    })
}

/// arbitrary bytes decoded lossily
pub fn lossy_bytes(max: usize) -> impl Strategy<Value = String> {
    proptest::collection::vec(any::<u8>(), 0..max).prop_map(|b| String::from_utf8_lossy(&b).into_owned())
}
