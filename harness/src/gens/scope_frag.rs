//! `scope_frag`: small-alphabet Lua scoping fragments (names a b c d, never `_`/`self`).
//!
//! AST-first generator: multi-local with duplicate names, `local x = x`, local functions, closures with
//! parameters (incl. duplicate parameters), numeric / generic `for` with names (and closures) in header
//! expressions, `repeat … until`, `while`, `do`, `if`, function statements (plain, dotted, method).
//! The renderer records the byte offset of every alphabet-name token and whether it declares or uses.
//! Field names after `.`/`:` and table-constructor keys reuse the same letters but are NOT name tokens.
//! Used by C13 (resolution) and C14 (rename/references).
use proptest::prelude::*;
use serde::{Deserialize, Serialize};

pub const NAMES: [&str; 4] = ["a", "b", "c", "d"];
pub const GLOBALS: [&str; 4] = ["print", "pairs", "ipairs", "next"];
const BINOPS: [&str; 6] = ["+", "..", "==", "and", "or", "<"];

#[derive(Clone, Debug, Serialize, Deserialize, PartialEq)]
pub enum Expr {
    Num(u8),
    /// a name of the alphabet (a *use*)
    Name(u8),
    /// a fixed well-known global outside the alphabet (print/pairs/…); not tracked
    Global(u8),
    Bin(Box<Expr>, u8, Box<Expr>),
    Not(Box<Expr>),
    /// prefix.f
    Field(Box<Expr>, u8),
    /// prefix[e]
    Index(Box<Expr>, Box<Expr>),
    Call(Box<Expr>, Vec<Expr>),
    /// prefix:m(args)
    Method(Box<Expr>, u8, Vec<Expr>),
    Table(Vec<TField>),
    /// function(params[, ...]) body end
    Closure(Vec<u8>, bool, Block),
    Paren(Box<Expr>),
}

#[derive(Clone, Debug, Serialize, Deserialize, PartialEq)]
pub enum TField {
    Pos(Expr),
    /// `f = e` (f is a key, not a name use)
    Named(u8, Expr),
    /// `[k] = e`
    Keyed(Expr, Expr),
}

#[derive(Clone, Debug, Serialize, Deserialize, PartialEq)]
pub enum Stmt {
    /// local n1, n2 = e1, e2
    Local(Vec<u8>, Vec<Expr>),
    /// t1, t2 = e1, e2   (targets: Name | Field | Index)
    Assign(Vec<Expr>, Vec<Expr>),
    /// expression statement: Call or Method
    CallStat(Expr),
    /// local function n(params) body end
    LocalFunc(u8, Vec<u8>, Block),
    /// function root.f1.f2[:m](params) body end
    Func(u8, Vec<u8>, Option<u8>, Vec<u8>, Block),
    Do(Block),
    While(Expr, Block),
    Repeat(Block, Expr),
    If(Vec<(Expr, Block)>, Option<Block>),
    /// for v = e1, e2[, e3] do body end
    NumFor(u8, Expr, Expr, Option<Expr>, Block),
    /// for v1, v2 in e1, e2 do body end
    GenFor(Vec<u8>, Vec<Expr>, Block),
}

#[derive(Clone, Debug, Default, Serialize, Deserialize, PartialEq)]
pub struct Block {
    pub stmts: Vec<Stmt>,
    /// trailing `return e…`
    pub ret: Option<Vec<Expr>>,
}

#[derive(Clone, Debug, Serialize, Deserialize, PartialEq)]
pub struct Program {
    pub body: Block,
}

#[derive(Clone, Copy, Debug, PartialEq, Eq)]
pub enum DeclKind {
    Local,
    LocalFunc,
    Param,
    NumFor,
    GenFor,
}

impl DeclKind {
    pub fn name(self) -> &'static str {
        match self {
            DeclKind::Local => "local",
            DeclKind::LocalFunc => "localfunc",
            DeclKind::Param => "param",
            DeclKind::NumFor => "numfor",
            DeclKind::GenFor => "genfor",
        }
    }
}

/// Context frames enclosing a use (outermost first); filled by `oracle::scoping::resolve`.
#[derive(Clone, Debug, PartialEq)]
pub enum Frame {
    /// inside the header expressions of a numeric for declaring these tokens
    NumHdr(Vec<usize>),
    /// inside the explist of a generic for declaring these tokens
    GenHdr(Vec<usize>),
    /// inside the initialisers of a `local` statement declaring these tokens
    LocalInit(Vec<usize>),
    /// inside the `until` condition of a repeat whose body declared these tokens (at body top level);
    /// unique id; whether the repeat body is empty (no statement, no return)
    Until(Vec<usize>, u32, bool),
    /// inside a function body (closure / local function / function statement); unique id
    Closure(u32),
    /// loop or block body; unique id
    Block(u32),
}

#[derive(Clone, Debug)]
pub struct NameTok {
    pub offset: usize,
    pub len: usize,
    pub name: &'static str,
    pub is_decl: bool,
    /// for a declaration: its own index; for a use: index of the declaring token the reference resolver
    /// selects, `None` = global.  Filled by `oracle::scoping::resolve`.
    pub expected_decl: Option<usize>,
    /// declarations only (filled by the resolver)
    pub kind: Option<DeclKind>,
    /// declarations only: id of the declaring construct (same `local` statement / parameter list / for header)
    pub group: u32,
    /// enclosing context at the token (filled by the resolver; for parameters it includes their function body)
    pub frames: Vec<Frame>,
    /// uses only: the name is being assigned / is a function-statement name
    pub is_write: bool,
    /// uses only: number of declarations of this name visible at the use (>=2 = shadowing)
    pub visible: u32,
}

struct R {
    out: String,
    toks: Vec<NameTok>,
    ind: usize,
}

impl R {
    fn nl(&mut self) {
        self.out.push('\n');
    }
    fn indent(&mut self) {
        for _ in 0..self.ind {
            self.out.push_str("  ");
        }
    }
    fn s(&mut self, t: &str) {
        self.out.push_str(t);
    }
    fn tok(&mut self, n: u8, is_decl: bool, is_write: bool) {
        let name = NAMES[n as usize % 4];
        self.toks.push(NameTok {
            offset: self.out.len(),
            len: name.len(),
            name,
            is_decl,
            expected_decl: None,
            kind: None,
            group: 0,
            frames: vec![],
            is_write,
            visible: 0,
        });
        self.out.push_str(name);
    }
    fn decl(&mut self, n: u8) {
        self.tok(n, true, false)
    }
    fn usen(&mut self, n: u8) {
        self.tok(n, false, false)
    }
    fn fieldname(&mut self, n: u8) {
        self.out.push_str(NAMES[n as usize % 4]);
    }

    fn exprs(&mut self, es: &[Expr]) {
        for (i, e) in es.iter().enumerate() {
            if i > 0 {
                self.s(", ");
            }
            self.expr(e);
        }
    }

    fn prefix(&mut self, e: &Expr) {
        match e {
            Expr::Name(_) | Expr::Global(_) | Expr::Field(..) | Expr::Index(..) | Expr::Call(..) | Expr::Method(..) | Expr::Paren(_) => self.expr(e),
            _ => {
                self.s("(");
                self.expr(e);
                self.s(")");
            }
        }
    }

    /// operand of a binary/unary operator: parenthesise nested operators so the AST shape is what is parsed
    fn operand(&mut self, e: &Expr) {
        match e {
            Expr::Bin(..) | Expr::Not(_) | Expr::Closure(..) => {
                self.s("(");
                self.expr(e);
                self.s(")");
            }
            _ => self.expr(e),
        }
    }

    fn params(&mut self, ps: &[u8], vararg: bool) {
        self.s("(");
        for (i, p) in ps.iter().enumerate() {
            if i > 0 {
                self.s(", ");
            }
            self.decl(*p);
        }
        if vararg {
            if !ps.is_empty() {
                self.s(", ");
            }
            self.s("...");
        }
        self.s(")");
    }

    fn expr(&mut self, e: &Expr) {
        match e {
            Expr::Num(n) => self.s(&n.to_string()),
            Expr::Name(n) => self.usen(*n),
            Expr::Global(g) => self.s(GLOBALS[*g as usize % GLOBALS.len()]),
            Expr::Bin(l, op, r) => {
                self.operand(l);
                self.s(" ");
                self.s(BINOPS[*op as usize % BINOPS.len()]);
                self.s(" ");
                self.operand(r);
            }
            Expr::Not(x) => {
                self.s("not ");
                self.operand(x);
            }
            Expr::Field(p, f) => {
                self.prefix(p);
                self.s(".");
                self.fieldname(*f);
            }
            Expr::Index(p, k) => {
                self.prefix(p);
                self.s("[");
                self.expr(k);
                self.s("]");
            }
            Expr::Call(f, args) => {
                self.prefix(f);
                self.s("(");
                self.exprs(args);
                self.s(")");
            }
            Expr::Method(p, m, args) => {
                self.prefix(p);
                self.s(":");
                self.fieldname(*m);
                self.s("(");
                self.exprs(args);
                self.s(")");
            }
            Expr::Table(fs) => {
                self.s("{");
                for (i, f) in fs.iter().enumerate() {
                    if i > 0 {
                        self.s(", ");
                    }
                    match f {
                        TField::Pos(e) => self.expr(e),
                        TField::Named(k, e) => {
                            self.fieldname(*k);
                            self.s(" = ");
                            self.expr(e);
                        }
                        TField::Keyed(k, e) => {
                            self.s("[");
                            self.expr(k);
                            self.s("] = ");
                            self.expr(e);
                        }
                    }
                }
                self.s("}");
            }
            Expr::Closure(ps, va, body) => {
                self.s("function");
                self.params(ps, *va);
                self.nl();
                self.ind += 1;
                self.block(body);
                self.ind -= 1;
                self.indent();
                self.s("end");
            }
            Expr::Paren(x) => {
                self.s("(");
                self.expr(x);
                self.s(")");
            }
        }
    }

    fn target(&mut self, e: &Expr) {
        match e {
            Expr::Name(n) => self.tok(*n, false, true),
            _ => self.expr(e),
        }
    }

    fn body(&mut self, b: &Block) {
        self.nl();
        self.ind += 1;
        self.block(b);
        self.ind -= 1;
        self.indent();
    }

    fn block(&mut self, b: &Block) {
        for s in &b.stmts {
            self.indent();
            self.stmt(s);
            self.nl();
        }
        if let Some(r) = &b.ret {
            self.indent();
            self.s("return");
            if !r.is_empty() {
                self.s(" ");
                self.exprs(r);
            }
            self.s(";");
            self.nl();
        }
    }

    fn stmt(&mut self, s: &Stmt) {
        match s {
            Stmt::Local(ns, es) => {
                self.s("local ");
                for (i, n) in ns.iter().enumerate() {
                    if i > 0 {
                        self.s(", ");
                    }
                    self.decl(*n);
                }
                if !es.is_empty() {
                    self.s(" = ");
                    self.exprs(es);
                }
                self.s(";");
            }
            Stmt::Assign(ts, es) => {
                for (i, t) in ts.iter().enumerate() {
                    if i > 0 {
                        self.s(", ");
                    }
                    self.target(t);
                }
                self.s(" = ");
                self.exprs(es);
                self.s(";");
            }
            Stmt::CallStat(e) => {
                self.expr(e);
                self.s(";");
            }
            Stmt::LocalFunc(n, ps, b) => {
                self.s("local function ");
                self.decl(*n);
                self.params(ps, false);
                self.body(b);
                self.s("end");
            }
            Stmt::Func(root, path, m, ps, b) => {
                self.s("function ");
                // a plain `function a()` assigns to a; `function a.b()` only reads a
                self.tok(*root, false, path.is_empty() && m.is_none());
                for f in path {
                    self.s(".");
                    self.fieldname(*f);
                }
                if let Some(m) = m {
                    self.s(":");
                    self.fieldname(*m);
                }
                self.params(ps, false);
                self.body(b);
                self.s("end");
            }
            Stmt::Do(b) => {
                self.s("do");
                self.body(b);
                self.s("end");
            }
            Stmt::While(c, b) => {
                self.s("while ");
                self.expr(c);
                self.s(" do");
                self.body(b);
                self.s("end");
            }
            Stmt::Repeat(b, c) => {
                self.s("repeat");
                self.body(b);
                self.s("until ");
                self.expr(c);
                self.s(";");
            }
            Stmt::If(arms, els) => {
                for (i, (c, b)) in arms.iter().enumerate() {
                    self.s(if i == 0 { "if " } else { "elseif " });
                    self.expr(c);
                    self.s(" then");
                    self.body(b);
                }
                if let Some(b) = els {
                    self.s("else");
                    self.body(b);
                }
                self.s("end");
            }
            Stmt::NumFor(v, a, b, c, body) => {
                self.s("for ");
                self.decl(*v);
                self.s(" = ");
                self.expr(a);
                self.s(", ");
                self.expr(b);
                if let Some(c) = c {
                    self.s(", ");
                    self.expr(c);
                }
                self.s(" do");
                self.body(body);
                self.s("end");
            }
            Stmt::GenFor(vs, es, body) => {
                self.s("for ");
                for (i, v) in vs.iter().enumerate() {
                    if i > 0 {
                        self.s(", ");
                    }
                    self.decl(*v);
                }
                self.s(" in ");
                self.exprs(es);
                self.s(" do");
                self.body(body);
                self.s("end");
            }
        }
    }
}

impl Program {
    /// Source text plus every alphabet-name token in source order, resolved by the reference model
    /// (`oracle::scoping`): `expected_decl` is the index (into the returned vector) of the declaring token.
    pub fn render(&self) -> (String, Vec<NameTok>) {
        let (text, mut toks) = self.render_raw();
        crate::oracle::scoping::resolve(self, &mut toks);
        (text, toks)
    }

    /// text and unresolved tokens (renderer only)
    pub fn render_raw(&self) -> (String, Vec<NameTok>) {
        let mut r = R { out: String::new(), toks: vec![], ind: 0 };
        r.block(&self.body);
        (r.out, r.toks)
    }

    pub fn stmt_count(&self) -> usize {
        fn b(x: &Block) -> usize {
            x.stmts.iter().map(s).sum::<usize>() + x.ret.is_some() as usize
        }
        fn s(x: &Stmt) -> usize {
            1 + match x {
                Stmt::LocalFunc(_, _, k) | Stmt::Func(_, _, _, _, k) | Stmt::Do(k) | Stmt::While(_, k) | Stmt::Repeat(k, _) | Stmt::NumFor(_, _, _, _, k) | Stmt::GenFor(_, _, k) => b(k),
                Stmt::If(arms, e) => arms.iter().map(|a| b(&a.1)).sum::<usize>() + e.as_ref().map(b).unwrap_or(0),
                _ => 0,
            }
        }
        b(&self.body)
    }

    /// ddmin-style candidates: drop one statement (any depth), hoist a compound statement's body, drop a return
    pub fn simplify(&self) -> Vec<Program> {
        let mut out = vec![];
        let n = count_slots(&self.body);
        for k in 0..n {
            for mode in 0..2u8 {
                let mut p = self.clone();
                let mut i = k;
                if edit_slot(&mut p.body, &mut i, mode) && p != *self {
                    out.push(p);
                }
            }
        }
        // expression sites: replace by a literal, by one of its operands, or empty a closure body
        let mut probe = self.clone();
        let mut ne = 0usize;
        visit_exprs_block(&mut probe.body, &mut |_| ne += 1);
        for k in 0..ne {
            for mode in 0..5usize {
                let mut p = self.clone();
                let mut i = 0usize;
                visit_exprs_block(&mut p.body, &mut |e| {
                    if i == k {
                        if let Some(r) = reduce_expr(e, mode) {
                            *e = r;
                        }
                    }
                    i += 1;
                });
                if p != *self {
                    out.push(p);
                }
            }
        }
        out
    }
}

fn reduce_expr(e: &Expr, mode: usize) -> Option<Expr> {
    if mode == 0 {
        return match e {
            Expr::Num(_) => None,
            _ => Some(Expr::Num(0)),
        };
    }
    let kids: Vec<Expr> = match e {
        Expr::Bin(l, _, r) => vec![(**l).clone(), (**r).clone()],
        Expr::Not(x) | Expr::Paren(x) | Expr::Field(x, _) => vec![(**x).clone()],
        Expr::Index(p, k) => vec![(**p).clone(), (**k).clone()],
        Expr::Call(f, a) => std::iter::once((**f).clone()).chain(a.iter().cloned()).collect(),
        Expr::Method(p, _, a) => std::iter::once((**p).clone()).chain(a.iter().cloned()).collect(),
        Expr::Table(fs) => fs
            .iter()
            .map(|f| match f {
                TField::Pos(e) | TField::Named(_, e) | TField::Keyed(_, e) => e.clone(),
            })
            .collect(),
        Expr::Closure(ps, va, b) => {
            // modes: drop parameters / drop the vararg
            return match mode {
                1 if !ps.is_empty() => Some(Expr::Closure(ps[1..].to_vec(), *va, b.clone())),
                2 if *va => Some(Expr::Closure(ps.clone(), false, b.clone())),
                _ => None,
            };
        }
        _ => vec![],
    };
    kids.get(mode - 1).cloned()
}

fn visit_exprs_block(b: &mut Block, f: &mut dyn FnMut(&mut Expr)) {
    for s in b.stmts.iter_mut() {
        match s {
            Stmt::Local(_, es) => es.iter_mut().for_each(|e| visit_expr(e, f)),
            Stmt::Assign(ts, es) => {
                // targets keep their shape (Name/Field/Index); only their sub-expressions are reduced
                for t in ts.iter_mut() {
                    match t {
                        Expr::Field(p, _) => visit_expr(p, f),
                        Expr::Index(p, k) => {
                            visit_expr(p, f);
                            visit_expr(k, f);
                        }
                        _ => {}
                    }
                }
                es.iter_mut().for_each(|e| visit_expr(e, f));
            }
            Stmt::CallStat(e) => match e {
                // keep it a call
                Expr::Call(c, a) => {
                    visit_expr(c, f);
                    a.iter_mut().for_each(|e| visit_expr(e, f));
                }
                Expr::Method(p, _, a) => {
                    visit_expr(p, f);
                    a.iter_mut().for_each(|e| visit_expr(e, f));
                }
                _ => {}
            },
            Stmt::LocalFunc(_, _, k) | Stmt::Func(_, _, _, _, k) | Stmt::Do(k) => visit_exprs_block(k, f),
            Stmt::While(c, k) => {
                visit_expr(c, f);
                visit_exprs_block(k, f);
            }
            Stmt::Repeat(k, c) => {
                visit_exprs_block(k, f);
                visit_expr(c, f);
            }
            Stmt::If(arms, e) => {
                for (c, k) in arms.iter_mut() {
                    visit_expr(c, f);
                    visit_exprs_block(k, f);
                }
                if let Some(k) = e {
                    visit_exprs_block(k, f);
                }
            }
            Stmt::NumFor(_, a, b2, c, k) => {
                visit_expr(a, f);
                visit_expr(b2, f);
                if let Some(c) = c {
                    visit_expr(c, f);
                }
                visit_exprs_block(k, f);
            }
            Stmt::GenFor(_, es, k) => {
                es.iter_mut().for_each(|e| visit_expr(e, f));
                visit_exprs_block(k, f);
            }
        }
    }
    if let Some(r) = &mut b.ret {
        r.iter_mut().for_each(|e| visit_expr(e, f));
    }
}

/// pre-order: `f` first (it may replace the node), then the (possibly new) node's children
fn visit_expr(e: &mut Expr, f: &mut dyn FnMut(&mut Expr)) {
    f(e);
    match e {
        Expr::Bin(l, _, r) => {
            visit_expr(l, f);
            visit_expr(r, f);
        }
        Expr::Not(x) | Expr::Paren(x) | Expr::Field(x, _) => visit_expr(x, f),
        Expr::Index(p, k) => {
            visit_expr(p, f);
            visit_expr(k, f);
        }
        Expr::Call(c, a) => {
            visit_expr(c, f);
            a.iter_mut().for_each(|e| visit_expr(e, f));
        }
        Expr::Method(p, _, a) => {
            visit_expr(p, f);
            a.iter_mut().for_each(|e| visit_expr(e, f));
        }
        Expr::Table(fs) => {
            for t in fs.iter_mut() {
                match t {
                    TField::Pos(e) | TField::Named(_, e) => visit_expr(e, f),
                    TField::Keyed(k, e) => {
                        visit_expr(k, f);
                        visit_expr(e, f);
                    }
                }
            }
        }
        Expr::Closure(_, _, b) => visit_exprs_block(b, f),
        _ => {}
    }
}

fn sub_blocks(s: &mut Stmt) -> Vec<&mut Block> {
    match s {
        Stmt::LocalFunc(_, _, k) | Stmt::Func(_, _, _, _, k) | Stmt::Do(k) | Stmt::While(_, k) | Stmt::Repeat(k, _) | Stmt::NumFor(_, _, _, _, k) | Stmt::GenFor(_, _, k) => vec![k],
        Stmt::If(arms, e) => {
            let mut v: Vec<&mut Block> = arms.iter_mut().map(|a| &mut a.1).collect();
            if let Some(e) = e {
                v.push(e);
            }
            v
        }
        _ => vec![],
    }
}

fn count_slots(b: &Block) -> usize {
    let mut n = b.stmts.len() + 1;
    let mut c = b.clone();
    for s in c.stmts.iter_mut() {
        for k in sub_blocks(s) {
            n += count_slots(k);
        }
    }
    n
}

/// mode 0: delete the statement in slot i; mode 1: replace it by `do <first sub-block> end`.  The last slot of a block is its return.
fn edit_slot(b: &mut Block, i: &mut usize, mode: u8) -> bool {
    if *i < b.stmts.len() {
        let k = *i;
        if mode == 0 {
            b.stmts.remove(k);
            return true;
        }
        let inner = sub_blocks(&mut b.stmts[k]).into_iter().next().map(|x| x.clone());
        return match inner {
            Some(x) => {
                b.stmts.splice(k..k + 1, x.stmts);
                true
            }
            None => false,
        };
    }
    *i -= b.stmts.len();
    if *i == 0 {
        if mode == 0 && b.ret.is_some() {
            b.ret = None;
            return true;
        }
        return false;
    }
    *i -= 1;
    for s in b.stmts.iter_mut() {
        for k in sub_blocks(s) {
            let n = count_slots(k);
            if *i < n {
                return edit_slot(k, i, mode);
            }
            *i -= n;
        }
    }
    false
}

// ---------------------------------------------------------------------------------------------------
// strategies

/// skewed towards `a` so that collisions (shadowing, duplicates) are frequent
pub fn name() -> BoxedStrategy<u8> {
    prop_oneof![4 => Just(0u8), 3 => Just(1u8), 2 => Just(2u8), 1 => Just(3u8)].boxed()
}

fn names(max: usize) -> BoxedStrategy<Vec<u8>> {
    proptest::collection::vec(name(), 1..=max).boxed()
}

fn params() -> BoxedStrategy<Vec<u8>> {
    proptest::collection::vec(name(), 0..=3).boxed()
}

fn expr_strategy(inner_block: Option<BoxedStrategy<Block>>) -> BoxedStrategy<Expr> {
    let leaf = prop_oneof![
        8 => name().prop_map(Expr::Name),
        2 => (0u8..10).prop_map(Expr::Num),
    ];
    let ib = inner_block.clone();
    leaf.prop_recursive(3, 12, 3, move |inner| {
        let args = proptest::collection::vec(inner.clone(), 0..3);
        let callee = prop_oneof![3 => inner.clone(), 1 => (0u8..4).prop_map(Expr::Global)];
        let tfield = prop_oneof![
            2 => inner.clone().prop_map(TField::Pos),
            2 => (name(), inner.clone()).prop_map(|(k, e)| TField::Named(k, e)),
            1 => (inner.clone(), inner.clone()).prop_map(|(k, e)| TField::Keyed(k, e)),
        ];
        let mut alts: Vec<(u32, BoxedStrategy<Expr>)> = vec![
            (3, (inner.clone(), 0u8..6, inner.clone()).prop_map(|(l, o, r)| Expr::Bin(Box::new(l), o, Box::new(r))).boxed()),
            (1, inner.clone().prop_map(|x| Expr::Not(Box::new(x))).boxed()),
            (2, (inner.clone(), name()).prop_map(|(p, f)| Expr::Field(Box::new(p), f)).boxed()),
            (1, (inner.clone(), inner.clone()).prop_map(|(p, k)| Expr::Index(Box::new(p), Box::new(k))).boxed()),
            (3, (callee, args.clone()).prop_map(|(f, a)| Expr::Call(Box::new(f), a)).boxed()),
            (1, (inner.clone(), name(), args.clone()).prop_map(|(p, m, a)| Expr::Method(Box::new(p), m, a)).boxed()),
            (1, proptest::collection::vec(tfield, 0..3).prop_map(Expr::Table).boxed()),
            (1, inner.clone().prop_map(|x| Expr::Paren(Box::new(x))).boxed()),
        ];
        if let Some(b) = &ib {
            let clo = (params(), any::<bool>(), b.clone()).prop_map(|(p, v, b)| Expr::Closure(p, v, b)).boxed();
            alts.push((3, clo.clone()));
            // immediately-invoked closure: (function() … end)(args)
            alts.push((1, (clo, args).prop_map(|(c, a)| Expr::Call(Box::new(c), a)).boxed()));
        }
        proptest::strategy::Union::new_weighted(alts)
    })
    .boxed()
}

fn block_strategy(e: BoxedStrategy<Expr>, inner: Option<BoxedStrategy<Block>>, min: usize, max: usize) -> BoxedStrategy<Block> {
    let es = |lo: usize, hi: usize| proptest::collection::vec(e.clone(), lo..=hi);
    let target = prop_oneof![
        4 => name().prop_map(Expr::Name),
        1 => (e.clone(), name()).prop_map(|(p, f)| Expr::Field(Box::new(p), f)),
        1 => (e.clone(), e.clone()).prop_map(|(p, k)| Expr::Index(Box::new(p), Box::new(k))),
    ];
    let callstat = prop_oneof![
        3 => es(0, 3).prop_map(|a| Expr::Call(Box::new(Expr::Global(0)), a)),
        1 => (e.clone(), es(0, 2)).prop_map(|(f, a)| Expr::Call(Box::new(f), a)),
        1 => (e.clone(), name(), es(0, 2)).prop_map(|(p, m, a)| Expr::Method(Box::new(p), m, a)),
    ];
    let simple = prop_oneof![
        5 => (names(3), es(0, 3)).prop_map(|(n, x)| Stmt::Local(n, x)),
        // `local x = x` family: initialiser mentions the declared name
        2 => name().prop_map(|n| Stmt::Local(vec![n], vec![Expr::Name(n)])),
        2 => (proptest::collection::vec(target, 1..=2), es(1, 2)).prop_map(|(t, x)| Stmt::Assign(t, x)),
        3 => callstat.prop_map(Stmt::CallStat),
    ]
    .boxed();
    let stmt: BoxedStrategy<Stmt> = match inner {
        None => simple,
        Some(b) => {
            let iter = prop_oneof![
                2 => (0u8..3, e.clone()).prop_map(|(g, x)| vec![Expr::Call(Box::new(Expr::Global(1 + g % 2)), vec![x])]),
                2 => es(1, 3),
            ];
            let compound = prop_oneof![
                3 => (name(), params(), b.clone()).prop_map(|(n, p, k)| Stmt::LocalFunc(n, p, k)),
                2 => (name(), proptest::collection::vec(name(), 0..=2), proptest::option::weighted(0.3, name()), params(), b.clone())
                    .prop_map(|(r, path, m, p, k)| Stmt::Func(r, path, m, p, k)),
                2 => b.clone().prop_map(Stmt::Do),
                2 => (e.clone(), b.clone()).prop_map(|(c, k)| Stmt::While(c, k)),
                3 => (b.clone(), e.clone()).prop_map(|(k, c)| Stmt::Repeat(k, c)),
                2 => (proptest::collection::vec((e.clone(), b.clone()), 1..=2), proptest::option::weighted(0.5, b.clone())).prop_map(|(a, x)| Stmt::If(a, x)),
                4 => (name(), e.clone(), e.clone(), proptest::option::weighted(0.3, e.clone()), b.clone()).prop_map(|(v, x, y, z, k)| Stmt::NumFor(v, x, y, z, k)),
                // header mentions the loop variable itself
                2 => (name(), b.clone()).prop_map(|(v, k)| Stmt::NumFor(v, Expr::Name(v), Expr::Num(9), None, k)),
                4 => (names(3), iter, b.clone()).prop_map(|(v, x, k)| Stmt::GenFor(v, x, k)),
            ];
            prop_oneof![5 => simple, 4 => compound].boxed()
        }
    };
    (proptest::collection::vec(stmt, min..=max), proptest::option::weighted(0.15, es(0, 2))).prop_map(|(stmts, ret)| Block { stmts, ret }).boxed()
}

/// programs with nesting depth <= `depth` (quick 3, thorough 5)
pub fn program(depth: u32, top_max: usize) -> BoxedStrategy<Program> {
    let mut blk: Option<BoxedStrategy<Block>> = None;
    for d in 0..=depth {
        let e = expr_strategy(blk.clone());
        let (lo, hi) = if d == depth { (2, top_max) } else { (0, 3) };
        blk = Some(block_strategy(e, blk.clone(), lo, hi));
    }
    blk.unwrap().prop_map(|body| Program { body }).boxed()
}
