//! `schemas`: JSON-schema documents (as `serde_json::Value`) for the schema → EmmyLua converter:
//! objects, arrays, enums/consts of every JSON type, oneOf/anyOf/allOf, `$ref` (incl. cycles and odd
//! targets), nested `$defs`/`definitions`, odd names, unknown and wrongly typed keywords; and
//! structural mutations of a real schema (the bundled `.emmyrc` schema).
use crate::gens::util;
use proptest::prelude::*;
use serde_json::{json, Map, Value};

/// property names, definition names, titles
pub const NAMES: &[&str] = &[
    "name", "count", "a_b", "Config", "Item2", "x", "level", "items", "$schema", "$id", "with space", " lead", "trail ", "quo\"te", "sq'uote", "back\\slash", "dot.ted", "a.b.c", "da-sh", "end", "nil", "function",
    "local", "return", "true", "self", "string", "any", "table", "fun", "名前", "é", "😀", "", "1st", "42", "new\nline", "cr\rmid", "crlf\r\n", "tab\tbed", "]]", "--", "---@class X", "#", "a?", "[x]", "[\"k\"]", "a|b", "<T>",
    "a b.c", "`t`", "x:y", "@at", "(", ")", "{", "a,b", "a=b", "*", "...", "/", "a/b", "%20", "~0", "\u{0}", "\u{2028}", "\u{feff}bom", "root", "schema.root", "very_long_name_very_long_name_very_long_name_very_long_name_1234567890",
];

/// enum values, const values, descriptions, titles
pub const STRINGS: &[&str] = &[
    "red", "green", "error", "info", "Simple text.", "", " ", "with space", "\"quoted\"", "a\"b", "ends with backslash\\", "\\\"", "\\n", "line1\nline2", "line1\r\nline2", "cr\ronly", "trailing newline\n", "\n", "\r", "\n\nblank first",
    "tab\there", "a # b", "# hash first", "--[[", "]]", "--", "---@field x string", "@param", "`code`", "*em*", "名前", "é", "😀", "a|b", "'single'", "[[long]]", "\u{0}", "\u{2028}sep", "\u{85}nel", "\u{b}vt\u{c}ff", "%s %d", "${var}",
    "Multi-line description.\n\nSecond paragraph with `code` and a list:\n- a\n- b\n", "end", "nil", "true", "1", "-1.5",
];

pub const TYPES: &[&str] = &["string", "integer", "number", "boolean", "null", "object", "array", "unknown", "", "String", "any"];

fn pick(items: &'static [&'static str]) -> impl Strategy<Value = String> {
    util::select_str(items).prop_map(|s| s.to_string())
}

pub fn name() -> impl Strategy<Value = String> {
    prop_oneof![3 => (0usize..10).prop_map(|i| NAMES[i].to_string()), 4 => pick(NAMES)]
}

/// first tokens of a description that the annotation grammar could read as a continuation of the previous line
pub const LEADS: &[&str] = &[
    "|", "&", "?", "[", "<", "+", "-", ":", "@", "#", "(", "{", "=", ",", ".", "*", "!", "~", "`", "\"", "'", "/", "\\", ">", "]", ")", "}", "^", "%", "$", ";", "_", "in", "extends", "and", "or", "keyof", "fun", "nil", "true",
    "...", "--", "---", "---@", "---|", "[[", "]]", "|+", "|>", "<T>", "[]", "[1]", ": Parent", "1", "0x",
];

pub fn string() -> impl Strategy<Value = String> {
    prop_oneof![
        2 => (0usize..5).prop_map(|i| STRINGS[i].to_string()),
        4 => pick(STRINGS),
        1 => pick(NAMES),
        1 => pick(LEADS),
        2 => (pick(LEADS), any::<bool>(), pick(STRINGS)).prop_map(|(a, sp, b)| format!("{a}{}{b}", if sp { " " } else { "" })),
    ]
}

/// any JSON value (enum members, const, default, unknown keywords)
pub fn json_any() -> BoxedStrategy<Value> {
    let leaf = prop_oneof![
        4 => string().prop_map(Value::String),
        1 => any::<i32>().prop_map(|n| json!(n)),
        1 => prop_oneof![Just(json!(1.5)), Just(json!(-0.0)), Just(json!(1e300)), Just(json!(u64::MAX)), Just(json!(i64::MIN))],
        1 => any::<bool>().prop_map(Value::Bool),
        1 => Just(Value::Null),
    ];
    leaf.prop_recursive(2, 8, 3, |inner| {
        prop_oneof![
            proptest::collection::vec(inner.clone(), 0..3).prop_map(Value::Array),
            proptest::collection::vec((name(), inner), 0..3).prop_map(|kv| Value::Object(kv.into_iter().collect::<Map<_, _>>())),
        ]
    })
    .boxed()
}

/// `$ref` strings; `defs` are names likely to exist
pub fn ref_string() -> impl Strategy<Value = String> {
    prop_oneof![
        6 => name().prop_map(|n| format!("#/$defs/{n}")),
        2 => name().prop_map(|n| format!("#/definitions/{n}")),
        1 => name().prop_map(|n| format!("#/$defs/{}", n.replace('~', "~0").replace('/', "~1").replace(' ', "%20"))),
        1 => name().prop_map(|n| format!("#/$defs/Outer/$defs/{n}")),
        2 => prop_oneof![
            Just("#".to_string()), Just("".to_string()), Just("#/".to_string()), Just("#/$defs/".to_string()), Just("/".to_string()), Just("http://example.com/s.json#/$defs/Thing".to_string()),
            Just("other.json".to_string()), Just("#/properties/name".to_string()), Just("#/$defs/a/b".to_string()), Just("#anchor".to_string()), Just("urn:x:y".to_string()),
        ],
    ]
}

fn type_value() -> impl Strategy<Value = Value> {
    prop_oneof![
        8 => pick(TYPES).prop_map(Value::String),
        3 => proptest::collection::vec(pick(TYPES), 0..4).prop_map(|v| Value::Array(v.into_iter().map(Value::String).collect())),
        1 => Just(json!(["null"])),
        1 => Just(json!(["string", "null"])),
        1 => Just(json!([])),
        1 => Just(json!(["null", "null"])),
        1 => Just(json!([1, null, "string"])),
        1 => Just(json!(5)),
        1 => Just(Value::Null),
    ]
}

/// unknown / annotation keywords that may ride along on any node
fn extras() -> impl Strategy<Value = Vec<(String, Value)>> {
    let kw = prop_oneof![
        Just("default"), Just("examples"), Just("format"), Just("minimum"), Just("deprecated"), Just("$comment"), Just("x-custom"), Just("readOnly"), Just("pattern"), Just("if"), Just("then"), Just("not"),
        Just("markdownDescription"), Just("x-名"), Just("unevaluatedProperties"), Just("contentMediaType"), Just("$anchor"), Just("$id"), Just("$schema"),
    ];
    proptest::collection::vec((kw.prop_map(|s| s.to_string()), json_any()), 0..3)
}

/// wrongly typed values for known keywords
fn wrong_keyword() -> impl Strategy<Value = (String, Value)> {
    let kw = prop_oneof![
        Just("properties"), Just("enum"), Just("oneOf"), Just("anyOf"), Just("allOf"), Just("type"), Just("title"), Just("required"), Just("$ref"), Just("description"), Just("$defs"), Just("items"), Just("additionalProperties"),
        Just("const"), Just("definitions"),
    ];
    (kw.prop_map(|s| s.to_string()), json_any())
}

fn obj(kv: Vec<(String, Value)>) -> Value {
    Value::Object(kv.into_iter().collect::<Map<_, _>>())
}

fn with_meta(base: Vec<(String, Value)>, desc: Option<String>, title: Option<String>, extra: Vec<(String, Value)>, wrong: Option<(String, Value)>) -> Value {
    let mut kv = base;
    if let Some(d) = desc {
        kv.push(("description".into(), Value::String(d)));
    }
    if let Some(t) = title {
        kv.push(("title".into(), Value::String(t)));
    }
    kv.extend(extra);
    if let Some(w) = wrong {
        // wrong-typed keyword wins over the well-typed one of the same name (later insert)
        kv.push(w);
    }
    obj(kv)
}

/// a schema node; recursion depth bounded by `depth`
pub fn node(depth: u32) -> BoxedStrategy<Value> {
    let meta = || (proptest::option::weighted(0.35, string()), proptest::option::weighted(0.1, name()), extras(), proptest::option::weighted(0.04, wrong_keyword()));
    let leaf = prop_oneof![
        // typed primitive
        6 => (type_value(), meta()).prop_map(|(t, (d, ti, e, w))| with_meta(vec![("type".into(), t)], d, ti, e, w)),
        // $ref (with or without siblings)
        5 => (ref_string(), meta(), any::<bool>()).prop_map(|(r, (d, ti, e, w), sib)| if sib { with_meta(vec![("$ref".into(), Value::String(r))], d, ti, e, w) } else { json!({"$ref": r}) }),
        // enum of every JSON type
        4 => (proptest::collection::vec(json_any(), 0..5), proptest::option::weighted(0.5, type_value()), meta()).prop_map(|(vals, t, (d, ti, e, w))| {
            let mut kv = vec![("enum".to_string(), Value::Array(vals))];
            if let Some(t) = t { kv.push(("type".into(), t)); }
            with_meta(kv, d, ti, e, w)
        }),
        // const
        3 => (json_any(), proptest::option::weighted(0.5, type_value()), meta()).prop_map(|(v, t, (d, ti, e, w))| {
            let mut kv = vec![("const".to_string(), v)];
            if let Some(t) = t { kv.push(("type".into(), t)); }
            with_meta(kv, d, ti, e, w)
        }),
        // empty / boolean / non-object schemas
        1 => prop_oneof![Just(json!({})), Just(json!(true)), Just(json!(false)), Just(Value::Null), Just(json!([])), Just(json!("string")), Just(json!(1))],
    ];
    leaf.prop_recursive(depth, 48, 4, move |inner| {
        let meta = || (proptest::option::weighted(0.35, string()), proptest::option::weighted(0.1, name()), extras(), proptest::option::weighted(0.04, wrong_keyword()));
        prop_oneof![
            // object with properties
            6 => (
                proptest::collection::vec((name(), inner.clone()), 0..5),
                proptest::collection::vec(prop_oneof![4 => name().prop_map(Value::String), 1 => json_any()], 0..3),
                any::<u8>(),
                proptest::option::weighted(0.4, prop_oneof![2 => inner.clone(), 1 => any::<bool>().prop_map(Value::Bool)]),
                proptest::option::weighted(0.8, type_value()),
                meta(),
            ).prop_map(|(props, extra_req, req_mask, addl, t, (d, ti, e, w))| {
                let mut req: Vec<Value> = props.iter().enumerate().filter(|(i, _)| req_mask >> (i % 8) & 1 == 1).map(|(_, (n, _))| Value::String(n.clone())).collect();
                req.extend(extra_req);
                let mut kv = vec![];
                if let Some(t) = t { kv.push(("type".to_string(), t)); }
                kv.push(("properties".into(), obj(props)));
                if !req.is_empty() { kv.push(("required".into(), Value::Array(req))); }
                if let Some(a) = addl { kv.push(("additionalProperties".into(), a)); }
                with_meta(kv, d, ti, e, w)
            }),
            // object without properties (map-like)
            2 => (proptest::option::weighted(0.7, inner.clone()), proptest::option::weighted(0.3, inner.clone()), meta()).prop_map(|(addl, pat, (d, ti, e, w))| {
                let mut kv = vec![("type".to_string(), json!("object"))];
                if let Some(a) = addl { kv.push(("additionalProperties".into(), a)); }
                if let Some(p) = pat { kv.push(("patternProperties".into(), json!({"^x-": p}))); }
                with_meta(kv, d, ti, e, w)
            }),
            // array
            4 => (proptest::option::weighted(0.85, prop_oneof![5 => inner.clone(), 1 => proptest::collection::vec(inner.clone(), 0..3).prop_map(Value::Array), 1 => any::<bool>().prop_map(Value::Bool)]), any::<bool>(), meta()).prop_map(
                |(items, prefix, (d, ti, e, w))| {
                    let mut kv = vec![("type".to_string(), json!("array"))];
                    if let Some(i) = items {
                        kv.push((if prefix { "prefixItems" } else { "items" }.to_string(), i.clone()));
                        if prefix { kv.push(("items".into(), i)); }
                    }
                    with_meta(kv, d, ti, e, w)
                }
            ),
            // combinators
            6 => (prop_oneof![Just("oneOf"), Just("anyOf"), Just("allOf")], proptest::collection::vec(prop_oneof![5 => inner.clone(), 1 => Just(json!({"type": "null"}))], 0..4), proptest::option::weighted(0.2, type_value()), any::<bool>(), meta()).prop_map(
                |(k, members, t, with_props, (d, ti, e, w))| {
                    let mut kv = vec![(k.to_string(), Value::Array(members))];
                    if let Some(t) = t { kv.push(("type".into(), t)); }
                    if with_props { kv.push(("properties".into(), json!({"p": {"type": "string"}}))); }
                    with_meta(kv, d, ti, e, w)
                }
            ),
            // oneOf of consts with descriptions (the documented enum idiom)
            3 => (proptest::collection::vec((json_any(), proptest::option::weighted(0.6, string()), any::<bool>()), 0..4), meta()).prop_map(|(members, (d, ti, e, w))| {
                let arr: Vec<Value> = members.into_iter().map(|(v, desc, as_enum)| {
                    let mut kv = vec![("type".to_string(), json!("string"))];
                    if as_enum { kv.push(("enum".into(), Value::Array(vec![v]))); } else { kv.push(("const".into(), v)); }
                    if let Some(desc) = desc { kv.push(("description".into(), Value::String(desc))); }
                    obj(kv)
                }).collect();
                with_meta(vec![("oneOf".to_string(), Value::Array(arr))], d, ti, e, w)
            }),
            // node carrying nested definitions
            1 => (inner.clone(), proptest::collection::vec((name(), inner.clone()), 1..3), any::<bool>()).prop_map(|(n, defs, legacy)| {
                let mut n = n;
                if let Value::Object(m) = &mut n { m.insert(if legacy { "definitions" } else { "$defs" }.to_string(), obj(defs)); }
                n
            }),
        ]
    })
    .boxed()
}

/// a whole schema document
pub fn document(depth: u32) -> impl Strategy<Value = Value> {
    let title = prop_oneof![
        3 => Just(None),
        4 => (0usize..10).prop_map(|i| Some(Value::String(NAMES[i].to_string()))),
        4 => name().prop_map(|n| Some(Value::String(n))),
        2 => string().prop_map(|n| Some(Value::String(n))),
        1 => json_any().prop_map(Some),
    ];
    let defs = || proptest::collection::vec((name(), node(depth.saturating_sub(1))), 0..5);
    prop_oneof![
        12 => (title, node(depth), proptest::option::weighted(0.75, defs()), proptest::option::weighted(0.2, defs()), any::<bool>()).prop_map(|(title, root, defs, legacy, self_ref)| {
            let mut root = match root { Value::Object(m) => m, other => { let mut m = Map::new(); m.insert("x-was".into(), other); m } };
            if let Some(t) = title { root.insert("title".into(), t); } else { root.remove("title"); }
            if let Some(mut d) = defs {
                if self_ref {
                    if let Some((n, _)) = d.first().cloned() {
                        // a definition that refers to itself and to the root: cycles
                        d.push((format!("{n}Cycle"), json!({"type": "object", "properties": {"next": {"$ref": format!("#/$defs/{n}Cycle")}, "up": {"$ref": "#"}, "first": {"$ref": format!("#/$defs/{n}")}}})));
                    }
                }
                root.insert("$defs".into(), obj(d));
            }
            if let Some(d) = legacy { root.insert("definitions".into(), obj(d)); }
            root.insert("$schema".into(), json!("https://json-schema.org/draft/2020-12/schema"));
            Value::Object(root)
        }),
        // non-object documents
        1 => prop_oneof![Just(json!(true)), Just(json!(false)), Just(Value::Null), Just(json!([])), Just(json!("x")), Just(json!(0)), Just(json!({}))],
    ]
}

// ---------------------------------------------------------------------------------------------
// structural mutation of a real schema

#[derive(Clone, Debug)]
pub enum SMut {
    /// replace the node at the selected path by a generated node
    Replace(u16, Value),
    /// rename the key of the selected member
    Rename(u16, String),
    /// delete the selected member / element
    Delete(u16),
    /// replace the selected string by another string
    Str(u16, String),
    /// copy the selected node over another selected node
    Copy(u16, u16),
    /// insert a new member into the selected object
    Insert(u16, String, Value),
}

#[derive(Clone, Debug, PartialEq)]
enum Seg {
    Key(String),
    Idx(usize),
}

fn paths(v: &Value, cur: &mut Vec<Seg>, out: &mut Vec<Vec<Seg>>) {
    match v {
        Value::Object(m) => {
            for (k, c) in m {
                cur.push(Seg::Key(k.clone()));
                out.push(cur.clone());
                paths(c, cur, out);
                cur.pop();
            }
        }
        Value::Array(a) => {
            for (i, c) in a.iter().enumerate() {
                cur.push(Seg::Idx(i));
                out.push(cur.clone());
                paths(c, cur, out);
                cur.pop();
            }
        }
        _ => {}
    }
}

fn get_mut<'a>(v: &'a mut Value, p: &[Seg]) -> Option<&'a mut Value> {
    let mut cur = v;
    for s in p {
        cur = match (s, cur) {
            (Seg::Key(k), Value::Object(m)) => m.get_mut(k)?,
            (Seg::Idx(i), Value::Array(a)) => a.get_mut(*i)?,
            _ => return None,
        };
    }
    Some(cur)
}

fn remove(v: &mut Value, p: &[Seg]) -> Option<Value> {
    let (last, parent) = p.split_last()?;
    let parent = get_mut(v, parent)?;
    match (last, parent) {
        (Seg::Key(k), Value::Object(m)) => m.remove(k),
        (Seg::Idx(i), Value::Array(a)) if *i < a.len() => Some(a.remove(*i)),
        _ => None,
    }
}

pub fn apply_smut(v: &mut Value, m: &SMut) {
    let mut all = vec![];
    paths(v, &mut vec![], &mut all);
    if all.is_empty() {
        return;
    }
    let sel = |raw: u16| all[util::idx(raw, all.len())].clone();
    match m {
        SMut::Replace(p, n) => {
            if let Some(t) = get_mut(v, &sel(*p)) {
                *t = n.clone();
            }
        }
        SMut::Rename(p, name) => {
            let path = sel(*p);
            if let Some(Seg::Key(_)) = path.last() {
                if let Some(old) = remove(v, &path) {
                    if let Some(Value::Object(parent)) = get_mut(v, &path[..path.len() - 1]) {
                        parent.insert(name.clone(), old);
                    }
                }
            }
        }
        SMut::Delete(p) => {
            remove(v, &sel(*p));
        }
        SMut::Str(p, s) => {
            // nearest string at or after the selected path
            let start = util::idx(*p, all.len());
            for k in 0..all.len() {
                let path = &all[(start + k) % all.len()];
                if let Some(t) = get_mut(v, path) {
                    if t.is_string() {
                        *t = Value::String(s.clone());
                        break;
                    }
                }
            }
        }
        SMut::Copy(a, b) => {
            let src = get_mut(v, &sel(*a)).map(|x| x.clone());
            if let (Some(src), Some(dst)) = (src, get_mut(v, &sel(*b))) {
                *dst = src;
            }
        }
        SMut::Insert(p, k, n) => {
            let start = util::idx(*p, all.len());
            for i in 0..all.len() {
                let path = &all[(start + i) % all.len()];
                if let Some(Value::Object(o)) = get_mut(v, path) {
                    o.insert(k.clone(), n.clone());
                    break;
                }
            }
        }
    }
}

pub fn smut() -> impl Strategy<Value = SMut> {
    prop_oneof![
        3 => (any::<u16>(), node(2)).prop_map(|(p, n)| SMut::Replace(p, n)),
        4 => (any::<u16>(), name()).prop_map(|(p, n)| SMut::Rename(p, n)),
        2 => any::<u16>().prop_map(SMut::Delete),
        4 => (any::<u16>(), string()).prop_map(|(p, s)| SMut::Str(p, s)),
        1 => (any::<u16>(), any::<u16>()).prop_map(|(a, b)| SMut::Copy(a, b)),
        2 => (any::<u16>(), name(), node(2)).prop_map(|(p, k, n)| SMut::Insert(p, k, n)),
    ]
}

/// generic JSON minimisation candidates: drop one member/element, or hoist a child over its parent
pub fn json_simplify(v: &Value) -> Vec<Value> {
    let mut all = vec![];
    paths(v, &mut vec![], &mut all);
    let mut out = vec![];
    // shallow paths first: big deletions early
    all.sort_by_key(|p| p.len());
    for p in all.iter().take(300) {
        let mut c = v.clone();
        if remove(&mut c, p).is_some() {
            out.push(c);
        }
    }
    for p in all.iter().take(150) {
        // shorten member names
        if let Some(Seg::Key(k)) = p.last() {
            if k.chars().count() > 1 {
                let mut cut = k.len() / 2;
                while !k.is_char_boundary(cut) {
                    cut += 1;
                }
                for half in [k[..cut].to_string(), k[cut..].to_string()] {
                    let mut c = v.clone();
                    if let Some(old) = remove(&mut c, p) {
                        if let Some(Value::Object(parent)) = get_mut(&mut c, &p[..p.len() - 1]) {
                            if !parent.contains_key(&half) {
                                parent.insert(half, old);
                                out.push(c);
                            }
                        }
                    }
                }
            }
        }
    }
    for p in all.iter().take(150) {
        // replace containers by {} and strings by "a"
        let mut c = v.clone();
        if let Some(t) = get_mut(&mut c, p) {
            match t {
                Value::Object(m) if !m.is_empty() => {
                    *t = json!({});
                    out.push(c);
                }
                Value::Array(a) if !a.is_empty() => {
                    *t = json!([]);
                    out.push(c);
                }
                Value::String(s) if s.len() > 1 && s.chars().count() > 1 => {
                    // halve the string
                    let mut cut = s.len() / 2;
                    while !s.is_char_boundary(cut) {
                        cut += 1;
                    }
                    let (a, b) = (s[..cut].to_string(), s[cut..].to_string());
                    *t = Value::String(a);
                    out.push(c.clone());
                    if let Some(t2) = get_mut(&mut c, p) {
                        *t2 = Value::String(b);
                        out.push(c);
                    }
                }
                _ => {}
            }
        }
    }
    out
}
