//! `paths`: normalized absolute Unix paths over a character set with reserved URI characters and
//! Unicode, and alternative percent-encodings of a file URI.
use proptest::prelude::*;

/// reserved / delimiter / unsafe ASCII characters of RFC 3986 and the WHATWG URL standard, and a few
/// plain ones
pub const ASCII_ATOMS: &[&str] = &[
    "a", "B", "z", "0", "9", ".", "-", "_", "~", " ", "%", "#", "?", "&", "+", ";", "=", "@", "[", "]", "\\", "'", "\"", "{", "}", "^", "|", ":", "*", "<", ">", "`", "!", "$", "(", ")", ",",
];
/// multi-character atoms: things that look like escapes, dot runs, drive letters, control characters
pub const TRICKY_ATOMS: &[&str] = &["%41", "%2F", "%2f", "%2e", "%25", "%zz", "%e9", "..", "...", ".lua", "C:", "c|", "\t", "\n", "\r", "\u{1}", "\u{7f}", "file:", "//"];
pub const UNICODE_ATOMS: &[&str] = &["é", "e\u{301}", "名", "字", "ß", "😀", "𝒳", "\u{10ffff}", "\u{feff}", "\u{2028}", "\u{a0}", "İ", "ǆ"];

fn atom() -> impl Strategy<Value = &'static str> {
    prop_oneof![
        5 => (0..ASCII_ATOMS.len()).prop_map(|i| ASCII_ATOMS[i]),
        2 => (0..TRICKY_ATOMS.len()).prop_map(|i| TRICKY_ATOMS[i]),
        3 => (0..UNICODE_ATOMS.len()).prop_map(|i| UNICODE_ATOMS[i]),
    ]
}

/// one path component: never empty, never `.` or `..`, no `/`, no NUL (by construction)
pub fn component() -> impl Strategy<Value = String> {
    proptest::collection::vec(atom(), 1..6).prop_map(|atoms| {
        let mut s: String = atoms.concat();
        s = s.replace('/', "_");
        if s == "." || s == ".." || s.is_empty() {
            s.push('x');
        }
        s
    })
}

/// components of a normalized absolute path (`/` + join("/"))
pub fn components() -> impl Strategy<Value = Vec<String>> {
    proptest::collection::vec(component(), 1..5)
}

pub fn path_of(comps: &[String]) -> String {
    let mut s = String::new();
    for c in comps {
        s.push('/');
        s.push_str(c);
    }
    s
}

/// Re-encodes the path part of a `file:///…` URI string.  `choices` is consumed cyclically, one
/// entry per *decoded* byte of the path: 0 = keep as the canonical URI has it, 1 = `%XX` with
/// upper-case hex, 2 = `%xx` with lower-case hex, 3 = literal if the byte is unreserved
/// (`A-Z a-z 0-9 - . _ ~`) even where the canonical URI escapes it.  `/` is never touched.
/// Returns None if `uri` does not start with `file://` (no alternative is built then).
pub fn re_encode(uri: &str, choices: &[u8]) -> Option<String> {
    if !uri.is_ascii() {
        return None;
    }
    let rest = uri.strip_prefix("file://")?;
    let path_start = rest.find('/')?;
    let (authority, path) = rest.split_at(path_start);
    let mut out = String::from("file://");
    out.push_str(authority);
    let b = path.as_bytes();
    let mut i = 0usize;
    let mut k = 0usize;
    while i < b.len() {
        let (byte, was_escaped, len) = if b[i] == b'%' && i + 3 <= b.len() && hex(b[i + 1]).is_some() && hex(b[i + 2]).is_some() {
            (hex(b[i + 1]).unwrap() * 16 + hex(b[i + 2]).unwrap(), true, 3)
        } else {
            (b[i], false, 1)
        };
        if !was_escaped && byte == b'/' {
            out.push('/');
            i += 1;
            continue;
        }
        let choice = if choices.is_empty() { 0 } else { choices[k % choices.len()] % 4 };
        k += 1;
        let unreserved = byte.is_ascii_alphanumeric() || matches!(byte, b'-' | b'.' | b'_' | b'~');
        match choice {
            1 => out.push_str(&format!("%{:02X}", byte)),
            2 => out.push_str(&format!("%{:02x}", byte)),
            3 if unreserved => out.push(byte as char),
            _ => out.push_str(&path[i..i + len]),
        }
        i += len;
    }
    Some(out)
}

fn hex(b: u8) -> Option<u8> {
    match b {
        b'0'..=b'9' => Some(b - b'0'),
        b'a'..=b'f' => Some(b - b'a' + 10),
        b'A'..=b'F' => Some(b - b'A' + 10),
        _ => None,
    }
}

/// first-principles percent-decoding of a URI path (reference for the round trip)
pub fn percent_decode(path: &str) -> Vec<u8> {
    let b = path.as_bytes();
    let mut out = vec![];
    let mut i = 0;
    while i < b.len() {
        if b[i] == b'%' && i + 3 <= b.len() {
            if let (Some(h), Some(l)) = (hex(b[i + 1]), hex(b[i + 2])) {
                out.push(h * 16 + l);
                i += 3;
                continue;
            }
        }
        out.push(b[i]);
        i += 1;
    }
    out
}
