//! validate-and-repair pass: enforces the context rules of the reference compilers on an arbitrary AST
use super::*;
use std::collections::BTreeSet;

fn filler() -> Stat {
    Stat::Do(Block::default())
}

struct BlockInfo {
    labels: Vec<(usize, u16)>,
    locals: Vec<usize>,
    cur: usize,
    /// index from which every remaining statement is void (label / `;`), when the block has no `return`
    tail_void_from: usize,
    is_repeat: bool,
}

struct Fx {
    f: Feats,
    strict: bool,
}

struct FnCx {
    vararg: bool,
    loops: u32,
    blocks: Vec<BlockInfo>,
    /// every label of the function met so far (a synthesized label must not clash with any of them)
    all_labels: BTreeSet<u16>,
}

pub fn long_level_ok(f: &Feats, level: u8, body: &str) -> bool {
    let close = format!("]{}]", "=".repeat(level as usize));
    let whole = format!("{}{}", body, close);
    if whole.find(&close) != Some(body.len()) {
        return false;
    }
    if level == 0 && !f.nested_long0 && body.contains("[[") {
        return false;
    }
    true
}

pub fn fix_long(f: &Feats, level: &mut u8, body: &str) {
    while !long_level_ok(f, *level, body) {
        *level += 1;
    }
}

impl Fx {
    fn strlit(&self, s: &mut StrLit) {
        match s {
            StrLit::Long { level, body } => fix_long(&self.f, level, body),
            StrLit::Short { quote, pieces } => {
                if *quote != '"' && *quote != '\'' {
                    *quote = '"';
                }
                let q = *quote;
                for p in pieces.iter_mut() {
                    if let StrPiece::Plain(t) = p {
                        if t.contains(['\\', '\n', '\r']) || t.contains(q) {
                            *t = t.chars().filter(|c| !matches!(c, '\\' | '\n' | '\r') && *c != q).collect();
                        }
                    }
                }
            }
        }
    }

    fn table(&self, t: &mut Table, c: &mut FnCx) {
        for it in t.items.iter_mut() {
            match it {
                TableItem::Pos(e) | TableItem::Named(_, e) => self.expr(e, c),
                TableItem::Keyed(k, v) => {
                    self.expr(k, c);
                    self.expr(v, c);
                }
            }
        }
    }

    fn args(&self, a: &mut Args, c: &mut FnCx) {
        match a {
            Args::List(v) => v.iter_mut().for_each(|e| self.expr(e, c)),
            Args::Str(s) => self.strlit(s),
            Args::Table(t) => self.table(t, c),
        }
    }

    fn func(&self, fb: &mut FuncBody, has_self: bool) {
        let _ = has_self;
        fb.params.iter_mut().for_each(|p| {
            if !is_assignable_name(p) {
                *p = "a".into()
            }
        });
        match &mut fb.vararg {
            Some(Vararg::Named(n)) => {
                if !self.f.named_vararg {
                    fb.vararg = Some(Vararg::Plain);
                } else if is_assignable_name(n) {
                    *n = "va".into();
                }
            }
            _ => {}
        }
        let mut c = FnCx { vararg: fb.vararg.is_some(), loops: 0, blocks: vec![], all_labels: BTreeSet::new() };
        self.block(&mut fb.body, &mut c, false);
    }

    fn expr(&self, e: &mut Expr, c: &mut FnCx) {
        match e {
            Expr::Nil | Expr::True | Expr::False | Expr::Number(_) | Expr::Name(_) => {}
            Expr::Vararg => {
                if !c.vararg {
                    *e = Expr::Nil;
                }
            }
            Expr::Str(s) => self.strlit(s),
            Expr::Index { obj, key } => {
                self.expr(obj, c);
                self.expr(key, c);
            }
            Expr::Field { obj, .. } => self.expr(obj, c),
            Expr::Call { f, args } => {
                self.expr(f, c);
                self.args(args, c);
            }
            Expr::Method { obj, args, .. } => {
                self.expr(obj, c);
                self.args(args, c);
            }
            Expr::Function(fb) => self.func(fb, false),
            Expr::Table(t) => self.table(t, c),
            Expr::Binary(op, l, r) => {
                if (op.is_bitop() && !self.f.bitops) || (*op == BinOp::IDiv && !self.f.idiv) {
                    *op = BinOp::Add;
                }
                self.expr(l, c);
                self.expr(r, c);
            }
            Expr::Unary(op, x) => {
                if *op == UnOp::BNot && !self.f.bitops {
                    *op = UnOp::Neg;
                }
                self.expr(x, c);
            }
            Expr::Paren(x) => self.expr(x, c),
        }
    }

    fn exprs(&self, v: &mut Vec<Expr>, c: &mut FnCx) {
        v.iter_mut().for_each(|e| self.expr(e, c));
    }

    /// statement-local repairs that may change the statement's kind (done before positions are recorded)
    fn prepare(&self, s: &mut Stat, c: &FnCx) {
        let f = &self.f;
        let bad = match s {
            Stat::Empty => !f.empty_stat,
            Stat::Label(_) | Stat::Goto(_) => !f.goto,
            Stat::Break => c.loops == 0,
            // a named declaration voids the implicit `global *`: only generated in strict programs, whose
            // prologue declares every name
            Stat::Global { .. } | Stat::GlobalFunction { .. } => !(f.globals && self.strict),
            Stat::GlobalAll { .. } => !f.globals,
            Stat::Call(e) => !e.is_call(),
            Stat::Assign { targets, values } => targets.is_empty() || values.is_empty(),
            Stat::Local { names, .. } => names.is_empty(),
            Stat::GenFor { vars, exprs, .. } => vars.is_empty() || exprs.is_empty(),
            _ => false,
        };
        if bad {
            *s = filler();
            return;
        }
        match s {
            Stat::Assign { targets, .. } => {
                for t in targets.iter_mut() {
                    match t {
                        Expr::Name(n) if !is_assignable_name(n) => *n = "x".into(),
                        t if !t.is_lvalue() => *t = Expr::Name("x".into()),
                        _ => {}
                    }
                }
            }
            Stat::Local { prefix, names, .. } => {
                if !f.attribs {
                    *prefix = None;
                    names.iter_mut().for_each(|n| n.1 = None);
                }
                if !f.globals {
                    *prefix = None; // prefix attribute is 5.5 syntax
                }
                // an attribute makes the name read-only: it must come from the read-only pool
                let has_attr = prefix.is_some();
                for (n, a) in names.iter_mut() {
                    if (has_attr || a.is_some()) && is_assignable_name(n) {
                        *n = "K".into();
                    }
                }
                // at most one to-be-closed variable per statement; a prefix <close> is never generated
                if *prefix == Some(Attrib::Close) {
                    *prefix = Some(Attrib::Const);
                }
                let mut seen_close = false;
                for (_, a) in names.iter_mut() {
                    if *a == Some(Attrib::Close) {
                        if seen_close {
                            *a = Some(Attrib::Const);
                        }
                        seen_close = true;
                    }
                }
            }
            Stat::Global { prefix, names, .. } => {
                if *prefix == Some(Attrib::Close) {
                    *prefix = None;
                }
                for (n, a) in names.iter_mut() {
                    if *a == Some(Attrib::Close) {
                        *a = None;
                    }
                    // a const global must never be assigned: read-only pool only
                    if (prefix.is_some() || a.is_some()) && is_assignable_name(n) {
                        *n = "MAX".into();
                    }
                }
            }
            Stat::GlobalAll { attrib } => {
                if *attrib == Some(Attrib::Close) {
                    *attrib = None;
                }
            }
            Stat::NumFor { var, .. } => {
                if is_assignable_name(var) {
                    *var = "i".into();
                }
            }
            Stat::GenFor { vars, .. } => {
                for v in vars.iter_mut() {
                    if is_assignable_name(v) {
                        *v = "k".into();
                    }
                }
            }
            Stat::Function { name, .. } => {
                if name.path.is_empty() && name.method.is_none() && !is_assignable_name(&name.base) {
                    name.base = "f".into();
                }
            }
            Stat::LocalFunction { name, .. } | Stat::GlobalFunction { name, .. } => {
                if !is_assignable_name(name) {
                    *name = "f".into();
                }
            }
            _ => {}
        }
    }

    fn block(&self, b: &mut Block, c: &mut FnCx, is_repeat: bool) {
        // 1. statement-local repairs
        for s in b.stats.iter_mut() {
            self.prepare(s, c);
        }
        // 2. `global <const> *` makes every free name read-only for the rest of the block: keep it only as
        //    the last statement
        //    (and only where nothing else – `return` values, an `until` condition – is still in its scope)
        let n = b.stats.len();
        let tail_ok = b.ret.is_none() && !is_repeat;
        let mut void_from = n;
        while void_from > 0 && matches!(b.stats[void_from - 1], Stat::Label(_) | Stat::Empty) {
            void_from -= 1;
        }
        for (i, s) in b.stats.iter_mut().enumerate() {
            if let Stat::GlobalAll { attrib } = s {
                if attrib.is_some() && !(tail_ok && i + 1 == void_from) {
                    *attrib = None;
                }
            }
        }
        // 3. 5.1 / LuaJIT: `break` must be the last statement of its block
        if !self.f.break_anywhere {
            if let Some(i) = b.stats.iter().position(|s| matches!(s, Stat::Break)) {
                b.stats.truncate(i + 1);
                b.ret = None;
            }
        }
        // 4. labels: unique among the labels of this block and of the enclosing blocks of the function
        let mut seen: BTreeSet<u16> = c.blocks.iter().flat_map(|bi| bi.labels.iter().map(|l| l.1)).collect();
        b.stats.retain(|s| match s {
            Stat::Label(id) => seen.insert(*id),
            _ => true,
        });
        for s in &b.stats {
            if let Stat::Label(id) = s {
                c.all_labels.insert(*id);
            }
        }
        // 5. positions
        let mut info = BlockInfo { labels: vec![], locals: vec![], cur: 0, tail_void_from: b.stats.len(), is_repeat };
        for (i, s) in b.stats.iter().enumerate() {
            match s {
                Stat::Label(id) => info.labels.push((i, *id)),
                // 5.5 `global` declarations are scoped like locals: a goto may not jump into their scope either
                Stat::Local { .. } | Stat::LocalFunction { .. } | Stat::Global { .. } | Stat::GlobalAll { .. } | Stat::GlobalFunction { .. } => info.locals.push(i),
                _ => {}
            }
        }
        if b.ret.is_none() {
            let mut k = b.stats.len();
            while k > 0 && matches!(b.stats[k - 1], Stat::Label(_) | Stat::Empty) {
                k -= 1;
            }
            info.tail_void_from = k;
        } else {
            info.tail_void_from = usize::MAX;
        }
        c.blocks.push(info);
        // 6. walk
        let can_append_label = b.ret.is_none() && !is_repeat && (self.f.break_anywhere || !matches!(b.stats.last(), Some(Stat::Break)));
        let mut i = 0;
        while i < b.stats.len() {
            c.blocks.last_mut().unwrap().cur = i;
            // a goto without any reachable label gets one: a fresh label appended to this block (a label at
            // the end of a block can be jumped to across local declarations)
            if let Stat::Goto(id) = &b.stats[i] {
                if can_append_label && self.goto_targets(c).is_empty() {
                    let mut id = *id;
                    while c.all_labels.contains(&id) {
                        id += 1;
                    }
                    c.all_labels.insert(id);
                    let at = b.stats.len();
                    b.stats.push(Stat::Label(id));
                    let bi = c.blocks.last_mut().unwrap();
                    bi.labels.push((at, id));
                    bi.tail_void_from = bi.tail_void_from.min(at);
                }
            }
            let mut s = std::mem::replace(&mut b.stats[i], Stat::Empty);
            self.stat(&mut s, c);
            b.stats[i] = s;
            i += 1;
        }
        if let Some(r) = &mut b.ret {
            c.blocks.last_mut().unwrap().cur = b.stats.len();
            self.exprs(&mut r.exprs, c);
        }
        if !is_repeat {
            c.blocks.pop();
        }
        // (for `repeat` the caller pops after the condition, which still sees the body's scope)
    }

    fn goto_targets(&self, c: &FnCx) -> Vec<u16> {
        let mut out = vec![];
        for bi in c.blocks.iter().rev() {
            let p = bi.cur;
            for &(q, id) in &bi.labels {
                let ok = if q < p {
                    true
                } else {
                    let crosses_local = bi.locals.iter().any(|&l| l > p && l < q);
                    !crosses_local || (q >= bi.tail_void_from && !bi.is_repeat)
                };
                if ok {
                    out.push(id);
                }
            }
        }
        out
    }

    fn body_in_loop(&self, b: &mut Block, c: &mut FnCx) {
        c.loops += 1;
        self.block(b, c, false);
        c.loops -= 1;
    }

    fn stat(&self, s: &mut Stat, c: &mut FnCx) {
        match s {
            Stat::Empty | Stat::Label(_) | Stat::Break | Stat::GlobalAll { .. } => {}
            Stat::Goto(id) => {
                let t = self.goto_targets(c);
                if t.is_empty() {
                    *s = filler();
                } else if !t.contains(id) {
                    *id = t[*id as usize % t.len()];
                }
            }
            Stat::Assign { targets, values } => {
                self.exprs(targets, c);
                self.exprs(values, c);
            }
            Stat::Call(e) => self.expr(e, c),
            Stat::Do(b) => self.block(b, c, false),
            Stat::While { cond, body } => {
                self.expr(cond, c);
                self.body_in_loop(body, c);
            }
            Stat::Repeat { body, cond } => {
                c.loops += 1;
                self.block(body, c, true);
                c.loops -= 1;
                self.expr(cond, c);
                c.blocks.pop();
            }
            Stat::If { cond, then, elseifs, els } => {
                self.expr(cond, c);
                self.block(then, c, false);
                for (e, b) in elseifs.iter_mut() {
                    self.expr(e, c);
                    self.block(b, c, false);
                }
                if let Some(b) = els {
                    self.block(b, c, false);
                }
            }
            Stat::NumFor { start, stop, step, body, .. } => {
                self.expr(start, c);
                self.expr(stop, c);
                if let Some(e) = step {
                    self.expr(e, c);
                }
                self.body_in_loop(body, c);
            }
            Stat::GenFor { exprs, body, .. } => {
                self.exprs(exprs, c);
                self.body_in_loop(body, c);
            }
            Stat::Function { name, body } => self.func(body, name.method.is_some()),
            Stat::LocalFunction { body, .. } | Stat::GlobalFunction { body, .. } => self.func(body, false),
            Stat::Local { values, .. } | Stat::Global { values, .. } => self.exprs(values, c),
        }
    }
}

// ---------------------------------------------------------------------------------------------
// free-name collection for the strict-globals prologue (over-approximation: every identifier used)
// ---------------------------------------------------------------------------------------------

fn names_expr(e: &Expr, out: &mut BTreeSet<String>) {
    match e {
        Expr::Name(n) => {
            out.insert(n.clone());
        }
        Expr::Index { obj, key } => {
            names_expr(obj, out);
            names_expr(key, out);
        }
        Expr::Field { obj, .. } => names_expr(obj, out),
        Expr::Call { f, args } => {
            names_expr(f, out);
            names_args(args, out);
        }
        Expr::Method { obj, args, .. } => {
            names_expr(obj, out);
            names_args(args, out);
        }
        Expr::Function(fb) => names_block(&fb.body, out),
        Expr::Table(t) => names_table(t, out),
        Expr::Binary(_, l, r) => {
            names_expr(l, out);
            names_expr(r, out);
        }
        Expr::Unary(_, x) | Expr::Paren(x) => names_expr(x, out),
        _ => {}
    }
}

fn names_table(t: &Table, out: &mut BTreeSet<String>) {
    for it in &t.items {
        match it {
            TableItem::Pos(e) | TableItem::Named(_, e) => names_expr(e, out),
            TableItem::Keyed(k, v) => {
                names_expr(k, out);
                names_expr(v, out);
            }
        }
    }
}

fn names_args(a: &Args, out: &mut BTreeSet<String>) {
    match a {
        Args::List(v) => v.iter().for_each(|e| names_expr(e, out)),
        Args::Str(_) => {}
        Args::Table(t) => names_table(t, out),
    }
}

fn names_block(b: &Block, out: &mut BTreeSet<String>) {
    for s in &b.stats {
        match s {
            Stat::Assign { targets, values } => targets.iter().chain(values.iter()).for_each(|e| names_expr(e, out)),
            Stat::Call(e) => names_expr(e, out),
            Stat::Do(b) => names_block(b, out),
            Stat::While { cond, body } | Stat::Repeat { body, cond } => {
                names_expr(cond, out);
                names_block(body, out);
            }
            Stat::If { cond, then, elseifs, els } => {
                names_expr(cond, out);
                names_block(then, out);
                for (e, b) in elseifs {
                    names_expr(e, out);
                    names_block(b, out);
                }
                if let Some(b) = els {
                    names_block(b, out);
                }
            }
            Stat::NumFor { start, stop, step, body, .. } => {
                names_expr(start, out);
                names_expr(stop, out);
                if let Some(e) = step {
                    names_expr(e, out);
                }
                names_block(body, out);
            }
            Stat::GenFor { exprs, body, .. } => {
                exprs.iter().for_each(|e| names_expr(e, out));
                names_block(body, out);
            }
            Stat::Function { name, body } => {
                out.insert(name.base.clone());
                names_block(&body.body, out);
            }
            Stat::LocalFunction { body, .. } => names_block(&body.body, out),
            Stat::GlobalFunction { name, body } => {
                out.insert(name.clone());
                names_block(&body.body, out);
            }
            Stat::Local { values, .. } => values.iter().for_each(|e| names_expr(e, out)),
            Stat::Global { names, values, .. } => {
                names.iter().for_each(|n| {
                    out.insert(n.0.clone());
                });
                values.iter().for_each(|e| names_expr(e, out));
            }
            _ => {}
        }
    }
    if let Some(r) = &b.ret {
        r.exprs.iter().for_each(|e| names_expr(e, out));
    }
}

fn build_prologue(p: &Program) -> Vec<Stat> {
    let mut names = BTreeSet::new();
    names_block(&p.block, &mut names);
    let style = p.prologue_style;
    let (ro, rw): (Vec<String>, Vec<String>) = names.into_iter().partition(|n| !is_assignable_name(n));
    let mut out = vec![];
    let plain = |ns: &[String]| ns.iter().map(|n| (n.clone(), None)).collect::<Vec<_>>();
    // assignable names: one statement, or one statement per two names
    if !rw.is_empty() {
        if style & 1 == 0 {
            out.push(Stat::Global { prefix: None, names: plain(&rw), values: vec![] });
        } else {
            for ch in rw.chunks(2) {
                out.push(Stat::Global { prefix: None, names: plain(ch), values: vec![] });
            }
        }
    }
    if !ro.is_empty() {
        match (style >> 1) & 3 {
            0 => out.push(Stat::Global { prefix: None, names: plain(&ro), values: vec![] }),
            1 => out.push(Stat::Global { prefix: Some(Attrib::Const), names: plain(&ro), values: vec![] }),
            2 => out.push(Stat::Global { prefix: None, names: ro.iter().map(|n| (n.clone(), Some(Attrib::Const))).collect(), values: vec![] }),
            _ => {
                for n in &ro {
                    out.push(Stat::Global { prefix: None, names: vec![(n.clone(), Some(Attrib::Const))], values: vec![Expr::Number("1".into())] });
                }
            }
        }
    }
    out
}

/// Validate-and-repair `p` for its level.  Idempotent; a no-op on programs produced by the strategies.
pub fn sanitize(p: &mut Program) {
    let f = p.level.feats();
    if !f.globals {
        p.strict_globals = false;
    }
    let fx = Fx { f, strict: p.strict_globals };
    let mut c = FnCx { vararg: true, loops: 0, blocks: vec![], all_labels: BTreeSet::new() };
    fx.block(&mut p.block, &mut c, false);
    p.prologue = if p.strict_globals { build_prologue(p) } else { vec![] };
}

// ---------------------------------------------------------------------------------------------
// structural simplification candidates (for `Property::simplify`)
// ---------------------------------------------------------------------------------------------

fn for_each_block_mut(b: &mut Block, f: &mut dyn FnMut(&mut Block)) {
    f(b);
    for s in b.stats.iter_mut() {
        match s {
            Stat::Do(b) => for_each_block_mut(b, f),
            Stat::While { body, .. } | Stat::Repeat { body, .. } | Stat::NumFor { body, .. } | Stat::GenFor { body, .. } => for_each_block_mut(body, f),
            Stat::If { then, elseifs, els, .. } => {
                for_each_block_mut(then, f);
                for (_, b) in elseifs.iter_mut() {
                    for_each_block_mut(b, f);
                }
                if let Some(b) = els {
                    for_each_block_mut(b, f);
                }
            }
            Stat::Function { body, .. } | Stat::LocalFunction { body, .. } | Stat::GlobalFunction { body, .. } => for_each_block_mut(&mut body.body, f),
            _ => {}
        }
    }
}

fn inner_blocks(s: &Stat) -> Vec<Block> {
    match s {
        Stat::Do(b) => vec![b.clone()],
        Stat::While { body, .. } | Stat::Repeat { body, .. } | Stat::NumFor { body, .. } | Stat::GenFor { body, .. } => vec![body.clone()],
        Stat::If { then, elseifs, els, .. } => {
            let mut v = vec![then.clone()];
            v.extend(elseifs.iter().map(|x| x.1.clone()));
            v.extend(els.iter().cloned());
            v
        }
        Stat::Function { body, .. } | Stat::LocalFunction { body, .. } | Stat::GlobalFunction { body, .. } => vec![body.body.clone()],
        _ => vec![],
    }
}

fn simple_expr(e: &mut Expr) -> bool {
    if matches!(e, Expr::Nil | Expr::Name(_)) {
        return false;
    }
    *e = Expr::Nil;
    true
}

/// Smaller valid variants of `p`: drop one statement / one `return`, hoist the body of a compound statement,
/// replace the expressions of one statement by `nil`.  Every candidate is re-sanitized.
pub fn simplify(p: &Program) -> Vec<Program> {
    let mut out: Vec<Program> = vec![];
    // count (block, statement) slots in visiting order
    let mut slots = 0usize;
    {
        let mut q = p.clone();
        for_each_block_mut(&mut q.block, &mut |b| slots += b.stats.len() + 1);
    }
    let push = |q: Program, out: &mut Vec<Program>| {
        let mut q = q;
        sanitize(&mut q);
        if q != *p && out.len() < 600 {
            out.push(q);
        }
    };
    // kind 0: delete, 1: hoist, 2: nil-out expressions
    for kind in 0..3 {
        for target in 0..slots {
            let mut q = p.clone();
            let mut k = 0usize;
            let mut changed = false;
            for_each_block_mut(&mut q.block, &mut |b| {
                if changed {
                    return;
                }
                let n = b.stats.len();
                if target >= k && target < k + n + 1 {
                    let i = target - k;
                    if i == n {
                        if kind == 0 && b.ret.is_some() {
                            b.ret = None;
                            changed = true;
                        } else if kind == 2 {
                            if let Some(r) = &mut b.ret {
                                for e in r.exprs.iter_mut() {
                                    changed |= simple_expr(e);
                                }
                            }
                        }
                    } else {
                        match kind {
                            0 => {
                                b.stats.remove(i);
                                changed = true;
                            }
                            1 => {
                                let inner = inner_blocks(&b.stats[i]);
                                if !inner.is_empty() {
                                    let mut repl = vec![];
                                    for ib in inner {
                                        repl.extend(ib.stats);
                                    }
                                    b.stats.splice(i..i + 1, repl);
                                    changed = true;
                                }
                            }
                            _ => match &mut b.stats[i] {
                                Stat::Assign { values, .. } | Stat::Local { values, .. } | Stat::Global { values, .. } => {
                                    for e in values.iter_mut() {
                                        changed |= simple_expr(e);
                                    }
                                }
                                Stat::While { cond, .. } | Stat::Repeat { cond, .. } | Stat::If { cond, .. } => changed |= simple_expr(cond),
                                Stat::NumFor { start, stop, step, .. } => {
                                    changed |= simple_expr(start);
                                    changed |= simple_expr(stop);
                                    if step.is_some() {
                                        *step = None;
                                        changed = true;
                                    }
                                }
                                Stat::GenFor { exprs, .. } => {
                                    for e in exprs.iter_mut() {
                                        changed |= simple_expr(e);
                                    }
                                }
                                Stat::Call(Expr::Call { args, .. }) | Stat::Call(Expr::Method { args, .. }) => {
                                    if !matches!(args, Args::List(v) if v.is_empty()) {
                                        *args = Args::List(vec![]);
                                        changed = true;
                                    }
                                }
                                _ => {}
                            },
                        }
                    }
                }
                k += n + 1;
            });
            if changed {
                push(q, &mut out);
            }
        }
    }
    if p.strict_globals {
        let mut q = p.clone();
        q.strict_globals = false;
        push(q, &mut out);
    }
    out
}
