//! AST → token list → text in a selectable layout; records the byte range of every emitted token
use super::fix::fix_long;
use super::*;
use std::ops::Range;

#[derive(Clone, Copy, Debug, PartialEq, Eq, Serialize, Deserialize)]
pub enum TokKind {
    Keyword,
    Name,
    Number,
    String,
    LongString,
    Punct,
    /// plain comment emitted by the layout (short or long form)
    Comment,
    /// one `---…` doc-comment line emitted by the layout
    DocComment,
}

#[derive(Clone, Copy, Debug, PartialEq, Eq, Serialize, Deserialize)]
pub enum LayoutMode {
    /// one line, blanks only where two tokens would otherwise fuse
    Minimal,
    /// one statement per line, two-space indentation, single blanks
    Plain,
    /// random blanks / tabs / line ends (LF, CRLF, CR) between tokens, optional `;` after statements
    Whitespace,
    /// `Whitespace` plus plain comments (short, long with levels, multi-line) in trivia positions
    Comments,
    /// `Plain` plus blocks of doc comments (`---@param …`) in front of statements
    Docs,
}

/// `choices` drives every layout decision (gap *i* uses `choices[i % len]`); empty = the mode's defaults.
#[derive(Clone, Debug, PartialEq, Eq, Serialize, Deserialize)]
pub struct Layout {
    pub mode: LayoutMode,
    /// line end used by Plain/Docs: 0 = LF, 1 = CRLF, 2 = CR
    pub eol: u8,
    pub choices: Vec<u8>,
}

impl Layout {
    pub fn minimal() -> Layout {
        Layout { mode: LayoutMode::Minimal, eol: 0, choices: vec![] }
    }
    pub fn plain() -> Layout {
        Layout { mode: LayoutMode::Plain, eol: 0, choices: vec![] }
    }
}

pub fn layout() -> BoxedStrategy<Layout> {
    let mode = prop_oneof![
        1 => Just(LayoutMode::Minimal),
        3 => Just(LayoutMode::Plain),
        3 => Just(LayoutMode::Whitespace),
        3 => Just(LayoutMode::Comments),
        2 => Just(LayoutMode::Docs),
    ];
    (mode, prop_oneof![6 => Just(0u8), 2 => Just(1u8), 1 => Just(2u8)], proptest::collection::vec(any::<u8>(), 0..24))
        .prop_map(|(mode, eol, choices)| Layout { mode, eol, choices })
        .boxed()
}

#[derive(Clone, Debug)]
pub struct Rendered {
    pub text: String,
    /// byte range and kind of every token, in order (comments included, blanks not)
    pub tokens: Vec<(Range<usize>, TokKind)>,
    /// for each statement of the main block (and the final `return`): index range into `tokens`
    /// of its code tokens (comments in front of it are not part of it)
    pub top_stats: Vec<Range<usize>>,
}

#[derive(Clone, Debug)]
enum TokClass {
    Real(TokKind),
    /// slot after a statement where a `;` may be placed (`must` = the next statement starts with `(`)
    OptSemi { must: bool },
}

#[derive(Clone, Debug)]
struct Tok {
    class: TokClass,
    text: String,
    /// the token must stay on the line of its predecessor (call parenthesis at 5.1 / LuaJIT)
    no_nl_before: bool,
    /// first token of a statement / of `end`, `else`, `elseif`, `until` (own line in Plain)
    line_start: bool,
    stmt_start: bool,
    depth: u16,
    top_stat: Option<u32>,
}

struct Em {
    toks: Vec<Tok>,
    depth: u16,
    feats: Feats,
    next_line_start: bool,
    next_stmt_start: bool,
    next_no_nl: bool,
    cur_top: Option<u32>,
}

impl Em {
    fn push(&mut self, kind: TokKind, text: &str) {
        let t = Tok {
            class: TokClass::Real(kind),
            text: text.to_string(),
            no_nl_before: std::mem::take(&mut self.next_no_nl),
            line_start: std::mem::take(&mut self.next_line_start),
            stmt_start: std::mem::take(&mut self.next_stmt_start),
            depth: self.depth,
            top_stat: self.cur_top,
        };
        self.toks.push(t);
    }
    fn kw(&mut self, s: &str) {
        self.push(TokKind::Keyword, s)
    }
    fn p(&mut self, s: &str) {
        self.push(TokKind::Punct, s)
    }
    fn name(&mut self, s: &str) {
        self.push(TokKind::Name, s)
    }
    /// keyword that closes / continues a compound statement: own line in Plain
    fn kw_line(&mut self, s: &str) {
        self.next_line_start = true;
        self.kw(s);
    }

    fn strlit(&mut self, s: &StrLit) {
        match s {
            StrLit::Short { quote, pieces } => {
                let mut t = String::new();
                t.push(*quote);
                for (i, p) in pieces.iter().enumerate() {
                    match p {
                        StrPiece::Plain(x) => t.push_str(x),
                        StrPiece::Esc(x) => {
                            t.push('\\');
                            let all_digits = !x.is_empty() && x.len() < 3 && x.bytes().all(|b| b.is_ascii_digit());
                            let next_digit = match pieces.get(i + 1) {
                                Some(StrPiece::Plain(n)) => n.bytes().next().map(|b| b.is_ascii_digit()).unwrap_or(false),
                                _ => false,
                            };
                            if all_digits && next_digit {
                                t.push_str(&format!("{:0>3}", x));
                            } else {
                                t.push_str(x);
                            }
                        }
                    }
                }
                t.push(*quote);
                self.push(TokKind::String, &t);
            }
            StrLit::Long { level, body } => {
                let mut lv = *level;
                fix_long(&self.feats, &mut lv, body);
                let eq = "=".repeat(lv as usize);
                self.push(TokKind::LongString, &format!("[{eq}[{body}]{eq}]"));
            }
        }
    }

    fn table(&mut self, t: &Table) {
        self.p("{");
        let n = t.items.len();
        for (i, it) in t.items.iter().enumerate() {
            match it {
                TableItem::Pos(e) => self.expr(e),
                TableItem::Named(k, v) => {
                    self.name(k);
                    self.p("=");
                    self.expr(v);
                }
                TableItem::Keyed(k, v) => {
                    self.p("[");
                    self.expr(k);
                    self.p("]");
                    self.p("=");
                    self.expr(v);
                }
            }
            if i + 1 < n || t.trailing {
                self.p(if t.semi { ";" } else { "," });
            }
        }
        self.p("}");
    }

    fn args(&mut self, a: &Args) {
        match a {
            Args::List(v) => {
                if !self.feats.newline_before_call_paren {
                    self.next_no_nl = true;
                }
                self.p("(");
                self.expr_list(v);
                self.p(")");
            }
            Args::Str(s) => self.strlit(s),
            Args::Table(t) => self.table(t),
        }
    }

    fn expr_list(&mut self, v: &[Expr]) {
        for (i, e) in v.iter().enumerate() {
            if i > 0 {
                self.p(",");
            }
            self.expr(e);
        }
    }

    fn prefix(&mut self, e: &Expr) {
        if e.is_prefix() {
            self.expr(e);
        } else {
            self.p("(");
            self.expr(e);
            self.p(")");
        }
    }

    fn paren_if(&mut self, cond: bool, e: &Expr) {
        if cond {
            self.p("(");
            self.expr(e);
            self.p(")");
        } else {
            self.expr(e);
        }
    }

    fn func_body(&mut self, fb: &FuncBody) {
        self.p("(");
        let mut first = true;
        for p in &fb.params {
            if !first {
                self.p(",");
            }
            first = false;
            self.name(p);
        }
        if let Some(v) = &fb.vararg {
            if !first {
                self.p(",");
            }
            self.p("...");
            if let Vararg::Named(n) = v {
                self.name(n);
            }
        }
        self.p(")");
        self.block(&fb.body);
        self.kw_line("end");
    }

    fn expr(&mut self, e: &Expr) {
        match e {
            Expr::Nil => self.kw("nil"),
            Expr::True => self.kw("true"),
            Expr::False => self.kw("false"),
            Expr::Vararg => self.p("..."),
            Expr::Number(n) => self.push(TokKind::Number, n),
            Expr::Str(s) => self.strlit(s),
            Expr::Name(n) => self.name(n),
            Expr::Index { obj, key } => {
                self.prefix(obj);
                self.p("[");
                self.expr(key);
                self.p("]");
            }
            Expr::Field { obj, name } => {
                self.prefix(obj);
                self.p(".");
                self.name(name);
            }
            Expr::Call { f, args } => {
                self.prefix(f);
                self.args(args);
            }
            Expr::Method { obj, name, args } => {
                self.prefix(obj);
                self.p(":");
                self.name(name);
                self.args(args);
            }
            Expr::Function(fb) => {
                self.kw("function");
                self.func_body(fb);
            }
            Expr::Table(t) => self.table(t),
            Expr::Binary(op, l, r) => {
                let p = op.prec();
                let lp = prec_of(l);
                let rp = prec_of(r);
                let l_par = lp < p || (lp == p && op.right_assoc());
                // a unary operand on the right never needs parentheses (`2^-3`, `a * -b`)
                let r_par = !matches!(**r, Expr::Unary(..)) && (rp < p || (rp == p && !op.right_assoc()));
                self.paren_if(l_par, l);
                if matches!(op, BinOp::And | BinOp::Or) {
                    self.kw(op.text());
                } else {
                    self.p(op.text());
                }
                self.paren_if(r_par, r);
            }
            Expr::Unary(op, x) => {
                if *op == UnOp::Not {
                    self.kw("not");
                } else {
                    self.p(op.text());
                }
                // `-x^2` is `-(x^2)`: only operands that bind weaker than a unary operator need parentheses
                self.paren_if(prec_of(x) < UNARY_PREC, x);
            }
            Expr::Paren(x) => {
                self.p("(");
                self.expr(x);
                self.p(")");
            }
        }
    }

    fn attrib(&mut self, a: &Option<Attrib>) {
        if let Some(a) = a {
            self.p("<");
            self.name(match a {
                Attrib::Const => "const",
                Attrib::Close => "close",
            });
            self.p(">");
        }
    }

    fn att_names(&mut self, prefix: &Option<Attrib>, names: &[(String, Option<Attrib>)], values: &[Expr]) {
        self.attrib(prefix);
        for (i, (n, a)) in names.iter().enumerate() {
            if i > 0 {
                self.p(",");
            }
            self.name(n);
            self.attrib(a);
        }
        if !values.is_empty() {
            self.p("=");
            self.expr_list(values);
        }
    }

    fn nested(&mut self, b: &Block) {
        self.depth += 1;
        self.block_inner(b);
        self.depth -= 1;
    }

    fn block(&mut self, b: &Block) {
        let top = self.cur_top.take();
        self.nested(b);
        self.cur_top = top;
    }

    fn block_inner(&mut self, b: &Block) {
        let n = b.stats.len();
        for (i, s) in b.stats.iter().enumerate() {
            self.stat(s);
            let next_paren = match b.stats.get(i + 1) {
                Some(n) => starts_with_paren(n),
                None => false,
            };
            let _ = n;
            if !matches!(s, Stat::Empty) {
                self.toks.push(Tok {
                    class: TokClass::OptSemi { must: next_paren },
                    text: ";".into(),
                    no_nl_before: false,
                    line_start: false,
                    stmt_start: false,
                    depth: self.depth,
                    top_stat: self.cur_top,
                });
            }
        }
        if let Some(r) = &b.ret {
            self.ret(r);
        }
    }

    fn ret(&mut self, r: &Return) {
        self.next_line_start = true;
        self.next_stmt_start = true;
        self.kw("return");
        self.expr_list(&r.exprs);
        if r.semi {
            self.p(";");
        }
    }

    fn stat(&mut self, s: &Stat) {
        self.next_line_start = true;
        self.next_stmt_start = true;
        match s {
            Stat::Empty => self.p(";"),
            Stat::Assign { targets, values } => {
                self.expr_list(targets);
                self.p("=");
                self.expr_list(values);
            }
            Stat::Call(e) => self.expr(e),
            Stat::Label(id) => {
                self.p("::");
                self.name(&label_name(*id));
                self.p("::");
            }
            Stat::Goto(id) => {
                self.kw("goto");
                self.name(&label_name(*id));
            }
            Stat::Break => self.kw("break"),
            Stat::Do(b) => {
                self.kw("do");
                self.block(b);
                self.kw_line("end");
            }
            Stat::While { cond, body } => {
                self.kw("while");
                self.expr(cond);
                self.kw("do");
                self.block(body);
                self.kw_line("end");
            }
            Stat::Repeat { body, cond } => {
                self.kw("repeat");
                self.block(body);
                self.kw_line("until");
                self.expr(cond);
            }
            Stat::If { cond, then, elseifs, els } => {
                self.kw("if");
                self.expr(cond);
                self.kw("then");
                self.block(then);
                for (e, b) in elseifs {
                    self.kw_line("elseif");
                    self.expr(e);
                    self.kw("then");
                    self.block(b);
                }
                if let Some(b) = els {
                    self.kw_line("else");
                    self.block(b);
                }
                self.kw_line("end");
            }
            Stat::NumFor { var, start, stop, step, body } => {
                self.kw("for");
                self.name(var);
                self.p("=");
                self.expr(start);
                self.p(",");
                self.expr(stop);
                if let Some(e) = step {
                    self.p(",");
                    self.expr(e);
                }
                self.kw("do");
                self.block(body);
                self.kw_line("end");
            }
            Stat::GenFor { vars, exprs, body } => {
                self.kw("for");
                for (i, v) in vars.iter().enumerate() {
                    if i > 0 {
                        self.p(",");
                    }
                    self.name(v);
                }
                self.kw("in");
                self.expr_list(exprs);
                self.kw("do");
                self.block(body);
                self.kw_line("end");
            }
            Stat::Function { name, body } => {
                self.kw("function");
                self.name(&name.base);
                for f in &name.path {
                    self.p(".");
                    self.name(f);
                }
                if let Some(m) = &name.method {
                    self.p(":");
                    self.name(m);
                }
                self.func_body(body);
            }
            Stat::LocalFunction { name, body } => {
                self.kw("local");
                self.kw("function");
                self.name(name);
                self.func_body(body);
            }
            Stat::GlobalFunction { name, body } => {
                self.kw("global");
                self.kw("function");
                self.name(name);
                self.func_body(body);
            }
            Stat::Local { prefix, names, values } => {
                self.kw("local");
                self.att_names(prefix, names, values);
            }
            Stat::Global { prefix, names, values } => {
                self.kw("global");
                self.att_names(prefix, names, values);
            }
            Stat::GlobalAll { attrib } => {
                self.kw("global");
                self.attrib(attrib);
                self.p("*");
            }
        }
    }
}

fn prec_of(e: &Expr) -> u8 {
    match e {
        Expr::Binary(op, ..) => op.prec(),
        Expr::Unary(..) => UNARY_PREC,
        _ => 100,
    }
}

fn leftmost_is_paren(e: &Expr) -> bool {
    match e {
        Expr::Paren(_) => true,
        Expr::Index { obj, .. } | Expr::Field { obj, .. } | Expr::Method { obj, .. } => !obj.is_prefix() || leftmost_is_paren(obj),
        Expr::Call { f, .. } => !f.is_prefix() || leftmost_is_paren(f),
        _ => false,
    }
}

fn starts_with_paren(s: &Stat) -> bool {
    match s {
        Stat::Call(e) => leftmost_is_paren(e),
        Stat::Assign { targets, .. } => targets.first().map(leftmost_is_paren).unwrap_or(false),
        _ => false,
    }
}

fn is_word(c: char) -> bool {
    c.is_alphanumeric() || c == '_' || !c.is_ascii()
}

/// would `prev` and `next` fuse into different tokens when written without a blank?
fn needs_space(prev_kind: Option<TokKind>, prev_last: char, next_first: char) -> bool {
    if is_word(prev_last) && is_word(next_first) {
        return true;
    }
    if prev_kind == Some(TokKind::Number) && (is_word(next_first) || next_first == '.') {
        return true;
    }
    if prev_last == '.' && (next_first == '.' || next_first.is_ascii_digit()) {
        return true;
    }
    matches!(
        (prev_last, next_first),
        ('-', '-') | ('[', '[') | ('[', '=') | ('=', '=') | ('~', '=') | ('<', '=') | ('>', '=') | ('<', '<') | ('>', '>') | ('/', '/') | (':', ':') | ('-', '>') | ('|', '|') | ('&', '&')
    )
}

const COMMENT_TEXT: &[&str] = &[" c", " note: x = 1", " TODO", "", " 名 😀", " ]] ", " [==[ ", " -- nested", " end", " \"quoted", " 'q", "TODO", " @param x", " ]=] ]==]", "region r", "endregion", " \\", " ---"];
const DOC_LINES: &[&str] = &[
    "--- description text",
    "---@type integer",
    "---@type string|nil",
    "---@param a string",
    "---@param b? number",
    "---@param ... any",
    "---@return boolean",
    "---@return integer, string",
    "---@class Foo",
    "---@class Bar: Foo",
    "---@field x number",
    "---@field name string",
    "---@generic T",
    "---@deprecated",
    "---@nodiscard",
    "---@async",
    "---@alias Id integer",
    "---@enum Color",
    "---@overload fun(a: integer): string",
    "---@see Foo",
    "---@type table<string, integer[]>",
    "---@type fun(x: number): number",
    "---",
];

struct Out<'a> {
    text: String,
    tokens: Vec<(Range<usize>, TokKind)>,
    last_kind: Option<TokKind>,
    feats: &'a Feats,
}

impl Out<'_> {
    fn raw(&mut self, s: &str) {
        self.text.push_str(s);
    }
    fn tok(&mut self, kind: TokKind, s: &str) {
        if let (Some(l), Some(n)) = (self.text.chars().next_back(), s.chars().next()) {
            let after_comment = matches!(self.last_kind, Some(TokKind::Comment) | Some(TokKind::DocComment));
            if !l.is_whitespace() && !after_comment && needs_space(self.last_kind, l, n) {
                self.text.push(' ');
            }
        }
        let a = self.text.len();
        self.text.push_str(s);
        self.tokens.push((a..self.text.len(), kind));
        self.last_kind = Some(kind);
    }
    fn long_comment(&mut self, body: &str) {
        let mut lv = 0u8;
        fix_long(self.feats, &mut lv, body);
        let eq = "=".repeat(lv as usize);
        self.tok(TokKind::Comment, &format!("--[{eq}[{body}]{eq}]"));
    }
    fn ends_with_newline(&self) -> bool {
        self.text.ends_with('\n') || self.text.ends_with('\r')
    }
}

fn eol_str(k: u8) -> &'static str {
    match k % 3 {
        0 => "\n",
        1 => "\r\n",
        _ => "\r",
    }
}

/// Renders `p` (prologue first).  The text is valid for `p.level` in every layout.
pub fn render(p: &Program, l: &Layout) -> Rendered {
    let feats = p.level.feats();
    let mut em = Em { toks: vec![], depth: 0, feats, next_line_start: false, next_stmt_start: false, next_no_nl: false, cur_top: None };
    // main block: statements are numbered for `top_stats`
    let mut all: Vec<&Stat> = p.prologue.iter().collect();
    all.extend(p.block.stats.iter());
    let n = all.len();
    for (i, s) in all.iter().enumerate() {
        em.cur_top = Some(i as u32);
        em.stat(s);
        let next_paren = all.get(i + 1).map(|n| starts_with_paren(n)).unwrap_or(false);
        if !matches!(s, Stat::Empty) {
            em.toks.push(Tok { class: TokClass::OptSemi { must: next_paren }, text: ";".into(), no_nl_before: false, line_start: false, stmt_start: false, depth: 0, top_stat: Some(i as u32) });
        }
    }
    if let Some(r) = &p.block.ret {
        em.cur_top = Some(n as u32);
        em.ret(r);
    }
    let n_top = n + p.block.ret.is_some() as usize;

    let mode = l.mode;
    let eol = eol_str(l.eol);
    let choice = |i: usize| -> u8 { if l.choices.is_empty() { 0 } else { l.choices[i % l.choices.len()] } };
    let mut out = Out { text: String::new(), tokens: vec![], last_kind: None, feats: &feats };
    let mut top_ranges: Vec<Option<(usize, usize)>> = vec![None; n_top];
    let ws_table: [&str; 12] = ["", " ", "  ", "\t", "\n", "\n  ", " \n", "\n\n", "\r\n", "\r", " \t ", "\n\t"];
    let mut first = true;
    let mut gap = 0usize;
    for t in &em.toks {
        gap += 1;
        let c = choice(gap);
        let kind = match &t.class {
            TokClass::OptSemi { must } => {
                let want = *must || (matches!(mode, LayoutMode::Whitespace | LayoutMode::Comments) && c % 11 == 3);
                if !want {
                    continue;
                }
                // never produce `;;` (not valid at 5.1 / LuaJIT)
                if out.text.trim_end().ends_with(';') && !*must {
                    continue;
                }
                out.tok(TokKind::Punct, ";");
                if let Some(ts) = t.top_stat {
                    let k = out.tokens.len();
                    if let Some(r) = &mut top_ranges[ts as usize] {
                        r.1 = k;
                    }
                }
                continue;
            }
            TokClass::Real(k) => *k,
        };
        let nl_ok = !t.no_nl_before;
        // ---- trivia in front of the token ----
        match mode {
            LayoutMode::Minimal => {}
            LayoutMode::Plain | LayoutMode::Docs => {
                if !first {
                    if t.line_start {
                        if mode == LayoutMode::Docs && t.stmt_start && c % 3 == 0 {
                            let lines = 1 + (c as usize / 3) % 3;
                            for k in 0..lines {
                                out.raw(eol);
                                out.raw(&"  ".repeat(t.depth as usize));
                                let d = DOC_LINES[(c as usize / 9 + k * 7 + gap) % DOC_LINES.len()];
                                out.tok(TokKind::DocComment, d);
                            }
                        }
                        out.raw(eol);
                        out.raw(&"  ".repeat(t.depth as usize));
                    } else {
                        let prev = out.text.chars().next_back().unwrap_or(' ');
                        let after_name = matches!(out.last_kind, Some(TokKind::Name));
                        let tight_before = matches!(t.text.as_str(), "," | ";" | ")" | "]" | "." | ":")
                            || (matches!(t.text.as_str(), "(" | "[") && (after_name || prev == ')' || prev == ']'))
                            || (t.text == "::" && after_name);
                        let tight_after = matches!(prev, '(' | '[' | '.' | ':' | '#') && out.last_kind == Some(TokKind::Punct);
                        if !tight_before && !tight_after {
                            out.raw(" ");
                        }
                    }
                } else if mode == LayoutMode::Docs && c % 3 == 0 {
                    out.tok(TokKind::DocComment, DOC_LINES[(c as usize / 3) % DOC_LINES.len()]);
                    out.raw(eol);
                }
            }
            LayoutMode::Whitespace | LayoutMode::Comments => {
                let mut ws: String = if t.stmt_start && c % 2 == 0 && !first {
                    format!("{}{}", eol_str(c / 2), "  ".repeat(t.depth as usize))
                } else {
                    ws_table[(c as usize / 2) % ws_table.len()].to_string()
                };
                if first && c % 4 != 1 {
                    ws.clear();
                }
                if !nl_ok {
                    ws = ws.replace(['\n', '\r'], " ");
                }
                if mode == LayoutMode::Comments {
                    let text = COMMENT_TEXT[(c as usize / 5 + gap) % COMMENT_TEXT.len()];
                    match c % 7 {
                        0 => {
                            // inline long comment
                            out.long_comment(text);
                        }
                        1 if nl_ok => {
                            // line comment: must not look like a long bracket or a doc comment
                            let safe = if text.starts_with('[') || text.starts_with('-') || text.starts_with('@') { " c" } else { text };
                            out.tok(TokKind::Comment, &format!("--{}", safe));
                            out.raw(eol_str(c / 7));
                        }
                        2 if nl_ok && c % 3 == 0 => {
                            out.long_comment(&format!("{}\n{}\n", text, text));
                        }
                        _ => {}
                    }
                }
                out.raw(&ws);
            }
        }
        // ---- the token ----
        let before = out.tokens.len();
        out.tok(kind, &t.text);
        if let Some(ts) = t.top_stat {
            let r = &mut top_ranges[ts as usize];
            match r {
                None => *r = Some((before, before + 1)),
                Some(r) => r.1 = before + 1,
            }
        }
        first = false;
    }
    // ---- end of file ----
    let c = choice(gap + 1);
    match mode {
        LayoutMode::Minimal => {}
        LayoutMode::Plain | LayoutMode::Docs => {
            if c % 4 != 3 && !out.text.is_empty() {
                out.raw(eol);
            }
        }
        LayoutMode::Whitespace => out.raw(ws_table[(c as usize) % ws_table.len()]),
        LayoutMode::Comments => {
            match c % 4 {
                0 => {
                    if !out.ends_with_newline() && !out.text.is_empty() {
                        out.raw(" ");
                    }
                    out.tok(TokKind::Comment, "-- eof");
                }
                1 => out.long_comment(" eof "),
                _ => {}
            }
            out.raw(ws_table[(c as usize / 4) % ws_table.len()]);
        }
    }
    let top_stats = top_ranges.into_iter().map(|r| r.map(|(a, b)| a..b).unwrap_or(0..0)).collect();
    Rendered { text: out.text, tokens: out.tokens, top_stats }
}
