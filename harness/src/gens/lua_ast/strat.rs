//! proptest strategies for the AST (context free; `fix::sanitize` enforces the context rules)
use super::*;
use proptest::collection::vec;

#[derive(Clone, Copy, Debug)]
pub struct Size {
    /// statements of the main block: 1..=top
    pub top: usize,
    /// statements of a nested block: 0..=nested
    pub nested: usize,
    /// nesting depth of blocks / expressions
    pub depth: u32,
}

impl Size {
    /// ≈5–15 statements
    pub fn small() -> Size {
        Size { top: 5, nested: 2, depth: 1 }
    }
    /// ≈10–40 statements
    pub fn medium() -> Size {
        Size { top: 10, nested: 2, depth: 2 }
    }
    pub fn for_tier(tier: Tier) -> Size {
        tier.pick(Size::small(), Size::medium())
    }
}

fn weighted<T: std::fmt::Debug + 'static>(v: Vec<(u32, BoxedStrategy<T>)>) -> BoxedStrategy<T> {
    let v: Vec<(u32, BoxedStrategy<T>)> = v.into_iter().filter(|x| x.0 > 0).collect();
    assert!(!v.is_empty());
    Union::new_weighted(v).boxed()
}

fn pick(items: &'static [&'static str]) -> BoxedStrategy<String> {
    (0..items.len()).prop_map(move |i| items[i].to_string()).boxed()
}

fn on(b: bool, w: u32) -> u32 {
    if b { w } else { 0 }
}

#[derive(Clone, Copy)]
struct Cx {
    level: Level,
    f: Feats,
    m: Mask,
}

// ---------------------------------------------------------------------------------------------
// names
// ---------------------------------------------------------------------------------------------

fn odd_names(cx: Cx) -> Vec<&'static str> {
    if !cx.m.has(Mask::ODD_NAMES) {
        return vec![];
    }
    match cx.level {
        Level::Lua51 => vec!["continue", "const", "global", "goto"],
        Level::Lua55 => vec!["continue", "const"],
        Level::LuaJIT => vec!["continue", "const", "global"],
        _ => vec!["continue", "const", "global"],
    }
}

fn assignable_name(cx: Cx) -> BoxedStrategy<String> {
    let odd = odd_names(cx);
    if odd.is_empty() {
        pick(ASSIGNABLE)
    } else {
        let n = odd.len();
        weighted(vec![(12, pick(ASSIGNABLE)), (1, (0..n).prop_map(move |i| odd[i].to_string()).boxed())])
    }
}

fn readonly_name() -> BoxedStrategy<String> {
    pick(READONLY)
}

fn read_name(cx: Cx) -> BoxedStrategy<String> {
    weighted(vec![(8, assignable_name(cx)), (3, pick(READONLY)), (3, pick(BUILTIN))])
}

fn field_name() -> BoxedStrategy<String> {
    pick(FIELDS)
}

// ---------------------------------------------------------------------------------------------
// literals
// ---------------------------------------------------------------------------------------------

const NUM_PLAIN: &[&str] = &["0", "1", "2", "7", "10", "42", "100", "255", "1.5", "0.25", "3.14"];
const NUM_DEC_CORNER: &[&str] = &[
    "3.", ".5", "007", "1e5", "1E5", "1e+5", "1E-5", ".5e3", "3.e2", "0.0", "1e400", "1e-400", "9223372036854775807", "9223372036854775808",
    "18446744073709551616", "0e0", "00.10", "123456789012345678901234567890", "5e+20", "0.1e1",
];
const NUM_HEX_INT: &[&str] = &["0x0", "0xA", "0Xff", "0xDEADbeef", "0x7fffffffffffffff", "0xffffffffffffffff", "0xfffffffffffffffff", "0x00ff", "0XABCDEF", "0xe", "0x1e5"];
const NUM_HEX_FLOAT: &[&str] = &["0x.1p-2", "0xA.8p0", "0x1p4", "0X1P+4", "0x.8", "0xA.", "0x1.8", "0x.1P1", "0xep1", "0x1p-1", "0x0.0p0", "0xa.bp10"];
const NUM_JIT: &[&str] = &["12LL", "12ULL", "0x1Full", "1ll", "3i", "2.5I", "0xffLL", "1e2i", "18446744073709551615ULL", "0b101", "0B11"];

fn number(cx: Cx) -> BoxedStrategy<Expr> {
    let corners = cx.m.has(Mask::NUM_CORNERS);
    let gen_dec = (any::<u32>(), 0u8..4).prop_map(|(n, k)| match k {
        0 => format!("{}", n),
        1 => format!("{}.{}", n % 1000, n / 1000 % 1000),
        2 => format!("{}e{}", n % 100, n / 100 % 40),
        _ => format!("0x{:x}", n),
    });
    weighted(vec![
        (6, pick(NUM_PLAIN)),
        (on(corners, 3), pick(NUM_DEC_CORNER)),
        (on(corners, 2), pick(NUM_HEX_INT)),
        (on(corners && cx.f.hex_float, 2), pick(NUM_HEX_FLOAT)),
        (on(corners && cx.f.jit_numbers, 2), pick(NUM_JIT)),
        (on(corners, 1), gen_dec.boxed()),
    ])
    .prop_map(Expr::Number)
    .boxed()
}

const PLAIN_ASCII: &[&str] = &["a", "hello", " ", "x y", "%d", "--", "[[", "]]", "]=]", "0", "9", "#", "{}", "end", "/*", "//", "\t", "$", "`", "?", "@", "~", "|"];
const PLAIN_UNI: &[&str] = &["é", "名", "😀", "\u{00A0}", "ß∂", "\u{FEFF}"];
const ESC_SIMPLE: &[&str] = &["n", "t", "\\", "\"", "'", "a", "b", "f", "r", "v", "0", "\n", "\r\n", "\r"];
const ESC_LENIENT: &[&str] = &["q", "%", "-", "(", "c", "u", "xZZ", "z", "/", "e"];

fn str_piece(cx: Cx) -> BoxedStrategy<StrPiece> {
    let esc = cx.m.has(Mask::ESCAPES);
    let f = cx.f;
    let umax = f.esc_u_max;
    let surr = f.esc_u_surrogates;
    let esc_u = (any::<u32>(), 0u8..6, any::<bool>()).prop_map(move |(raw, k, upper)| {
        let mut cp = match k {
            0 => raw % 0x80,
            1 => raw % 0x800,
            2 => raw % 0x1_0000,
            3 => raw % 0x11_0000,
            4 => umax,
            _ => raw % (umax.saturating_add(1).max(1)),
        };
        if cp > umax {
            cp = umax;
        }
        if !surr && (0xD800..0xE000).contains(&cp) {
            cp = 0xD7FF;
        }
        let pad = if k == 1 { "000" } else { "" };
        StrPiece::Esc(if upper { format!("u{{{}{:X}}}", pad, cp) } else { format!("u{{{}{:x}}}", pad, cp) })
    });
    weighted(vec![
        (8, pick(PLAIN_ASCII).prop_map(StrPiece::Plain).boxed()),
        (on(cx.m.has(Mask::NON_ASCII), 2), pick(PLAIN_UNI).prop_map(StrPiece::Plain).boxed()),
        (on(esc, 4), pick(ESC_SIMPLE).prop_map(StrPiece::Esc).boxed()),
        (on(esc, 3), (0u32..256, 1usize..4).prop_map(|(n, w)| StrPiece::Esc(format!("{:0w$}", n, w = w))).boxed()),
        (on(esc && f.esc_xz, 2), (any::<u8>(), any::<bool>()).prop_map(|(n, u)| StrPiece::Esc(if u { format!("x{:02X}", n) } else { format!("x{:02x}", n) })).boxed()),
        (on(esc && f.esc_xz, 2), pick(&["z", "z ", "z\n", "z \t\r\n  ", "z\n\n"]).prop_map(StrPiece::Esc).boxed()),
        (on(esc && umax > 0, 3), esc_u.boxed()),
        (on(esc && f.lenient_esc && cx.m.has(Mask::LENIENT_ESCAPES), 1), pick(ESC_LENIENT).prop_map(StrPiece::Esc).boxed()),
    ])
}

const LONG_BODY: &[&str] = &["", "a", "text", "\n", "\r\n", "]", "]]", "]=]", "]==]", "[[", "[=[", "--", "--[[", "\"", "'", "\\n", " ", "line1\nline2", "]=", "=", "名", "😀", "\\"];

fn long_body(cx: Cx) -> BoxedStrategy<String> {
    let uni = cx.m.has(Mask::NON_ASCII);
    vec(0..LONG_BODY.len(), 0..5)
        .prop_map(move |ix| {
            let mut s = String::new();
            for i in ix {
                let p = LONG_BODY[i];
                if !uni && !p.is_ascii() {
                    continue;
                }
                s.push_str(p);
            }
            s
        })
        .boxed()
}

fn str_lit(cx: Cx) -> BoxedStrategy<StrLit> {
    let short = (any::<bool>(), vec(str_piece(cx), 0..5)).prop_map(|(q, pieces)| StrLit::Short { quote: if q { '"' } else { '\'' }, pieces });
    weighted(vec![
        (3, pick(&["", "s", "name", "k"]).prop_map(|s| StrLit::Short { quote: '"', pieces: if s.is_empty() { vec![] } else { vec![StrPiece::Plain(s)] } }).boxed()),
        (4, short.boxed()),
        (on(cx.m.has(Mask::LONG_BRACKETS), 2), (0u8..3, long_body(cx)).prop_map(|(level, body)| StrLit::Long { level, body }).boxed()),
    ])
}

// ---------------------------------------------------------------------------------------------
// expressions, statements, blocks – built level by level so that construction stays linear
// ---------------------------------------------------------------------------------------------

fn binop(cx: Cx) -> BoxedStrategy<BinOp> {
    use BinOp::*;
    let mut ops = vec![Or, And, Lt, Gt, Le, Ge, Ne, Eq, Concat, Add, Sub, Mul, Div, Mod, Pow];
    if cx.f.idiv {
        ops.push(IDiv);
    }
    if cx.f.bitops && cx.m.has(Mask::BITOPS) {
        ops.extend([BOr, BXor, BAnd, Shl, Shr]);
    }
    let n = ops.len();
    (0..n).prop_map(move |i| ops[i]).boxed()
}

fn unop(cx: Cx) -> BoxedStrategy<UnOp> {
    let mut ops = vec![UnOp::Neg, UnOp::Not, UnOp::Len];
    if cx.f.bitops && cx.m.has(Mask::BITOPS) {
        ops.push(UnOp::BNot);
    }
    let n = ops.len();
    (0..n).prop_map(move |i| ops[i]).boxed()
}

fn leaf_expr(cx: Cx) -> BoxedStrategy<Expr> {
    weighted(vec![
        (6, read_name(cx).prop_map(Expr::Name).boxed()),
        (4, number(cx)),
        (3, str_lit(cx).prop_map(Expr::Str).boxed()),
        (1, Just(Expr::Nil).boxed()),
        (1, Just(Expr::True).boxed()),
        (1, Just(Expr::False).boxed()),
        (on(cx.m.has(Mask::VARARG), 1), Just(Expr::Vararg).boxed()),
    ])
}

fn table(e: BoxedStrategy<Expr>) -> BoxedStrategy<Table> {
    let item = prop_oneof![
        3 => e.clone().prop_map(TableItem::Pos),
        2 => (field_name(), e.clone()).prop_map(|(n, v)| TableItem::Named(n, v)),
        1 => (e.clone(), e.clone()).prop_map(|(k, v)| TableItem::Keyed(k, v)),
    ];
    (vec(item, 0..4), any::<bool>(), any::<bool>()).prop_map(|(items, semi, trailing)| Table { items, semi, trailing }).boxed()
}

fn args(cx: Cx, e: BoxedStrategy<Expr>) -> BoxedStrategy<Args> {
    prop_oneof![
        8 => vec(e.clone(), 0..4).prop_map(Args::List),
        1 => str_lit(cx).prop_map(Args::Str),
        1 => table(e).prop_map(Args::Table),
    ]
    .boxed()
}

fn func_body(cx: Cx, b: BoxedStrategy<Block>) -> BoxedStrategy<FuncBody> {
    let va = weighted(vec![
        (3, Just(None).boxed()),
        (on(cx.m.has(Mask::VARARG), 2), Just(Some(Vararg::Plain)).boxed()),
        (on(cx.m.has(Mask::VARARG) && cx.f.named_vararg, 1), pick(&["va"]).prop_map(|n| Some(Vararg::Named(n))).boxed()),
    ]);
    (vec(pick(ASSIGNABLE), 0..4), va, b).prop_map(|(params, vararg, body)| FuncBody { params, vararg, body }).boxed()
}

fn compound_expr(cx: Cx, e: BoxedStrategy<Expr>, b: BoxedStrategy<Block>) -> BoxedStrategy<Expr> {
    let bx = |s: BoxedStrategy<Expr>| s.prop_map(Box::new);
    let methods = cx.m.has(Mask::METHODS);
    // operands are leaves more often than not: keeps programs small without losing the deep mixes
    let e: BoxedStrategy<Expr> = weighted(vec![(3, leaf_expr(cx)), (2, e)]);
    weighted(vec![
        (16, leaf_expr(cx)),
        (5, (binop(cx), bx(e.clone()), bx(e.clone())).prop_map(|(o, l, r)| Expr::Binary(o, l, r)).boxed()),
        (2, (unop(cx), bx(e.clone())).prop_map(|(o, x)| Expr::Unary(o, x)).boxed()),
        (1, bx(e.clone()).prop_map(Expr::Paren).boxed()),
        (2, (bx(e.clone()), bx(e.clone())).prop_map(|(obj, key)| Expr::Index { obj, key }).boxed()),
        (3, (bx(e.clone()), field_name()).prop_map(|(obj, name)| Expr::Field { obj, name }).boxed()),
        (4, (bx(e.clone()), args(cx, e.clone())).prop_map(|(f, args)| Expr::Call { f, args }).boxed()),
        (on(methods, 2), (bx(e.clone()), field_name(), args(cx, e.clone())).prop_map(|(obj, name, args)| Expr::Method { obj, name, args }).boxed()),
        (2, table(e.clone()).prop_map(Expr::Table).boxed()),
        (on(cx.m.has(Mask::CLOSURES), 1), func_body(cx, b).prop_map(|f| Expr::Function(Box::new(f))).boxed()),
    ])
}

fn lvalue(cx: Cx, e: BoxedStrategy<Expr>) -> BoxedStrategy<Expr> {
    let bx = |s: BoxedStrategy<Expr>| s.prop_map(Box::new);
    prop_oneof![
        5 => assignable_name(cx).prop_map(Expr::Name),
        3 => (bx(e.clone()), field_name()).prop_map(|(obj, name)| Expr::Field { obj, name }),
        2 => (bx(e.clone()), bx(e)).prop_map(|(obj, key)| Expr::Index { obj, key }),
    ]
    .boxed()
}

fn call_expr(cx: Cx, e: BoxedStrategy<Expr>) -> BoxedStrategy<Expr> {
    let bx = |s: BoxedStrategy<Expr>| s.prop_map(Box::new);
    weighted(vec![
        (5, (read_name(cx).prop_map(|n| Box::new(Expr::Name(n))), args(cx, e.clone())).prop_map(|(f, args)| Expr::Call { f, args }).boxed()),
        (2, (bx(e.clone()), args(cx, e.clone())).prop_map(|(f, args)| Expr::Call { f, args }).boxed()),
        (on(cx.m.has(Mask::METHODS), 3), (bx(e.clone()), field_name(), args(cx, e)).prop_map(|(obj, name, args)| Expr::Method { obj, name, args }).boxed()),
    ])
}

fn attrib() -> BoxedStrategy<Option<Attrib>> {
    prop_oneof![3 => Just(None), 2 => Just(Some(Attrib::Const)), 1 => Just(Some(Attrib::Close))].boxed()
}

fn stat(cx: Cx, e: BoxedStrategy<Expr>, inner: Option<BoxedStrategy<Block>>) -> BoxedStrategy<Stat> {
    let f = cx.f;
    let m = cx.m;
    let goto = f.goto && m.has(Mask::GOTO);
    let attribs = f.attribs && m.has(Mask::ATTRIBS);
    let globals = f.globals && m.has(Mask::GLOBAL_DECL);
    let exprs = |lo: usize, hi: usize| vec(e.clone(), lo..hi);
    let plain_local = (vec(pick(ASSIGNABLE), 1..4), exprs(0, 4)).prop_map(|(ns, values)| Stat::Local { prefix: None, names: ns.into_iter().map(|n| (n, None)).collect(), values });
    let attr_local = (vec((readonly_name(), attrib()), 1..3), exprs(1, 3), prop_oneof![4 => Just(None), 1 => Just(Some(Attrib::Const))], any::<bool>()).prop_map(
        move |(names, values, prefix, use_prefix)| Stat::Local { prefix: if use_prefix && globals { prefix } else { None }, names, values },
    );
    let global_decl = (vec((read_name(cx), prop_oneof![3 => Just(None), 1 => Just(Some(Attrib::Const))]), 1..3), exprs(0, 3), prop_oneof![4 => Just(None), 1 => Just(Some(Attrib::Const))])
        .prop_map(|(names, values, prefix)| Stat::Global { prefix, names, values });
    let mut v: Vec<(u32, BoxedStrategy<Stat>)> = vec![
        (6, (vec(lvalue(cx, e.clone()), 1..3), exprs(1, 3)).prop_map(|(targets, values)| Stat::Assign { targets, values }).boxed()),
        (6, call_expr(cx, e.clone()).prop_map(Stat::Call).boxed()),
        (5, plain_local.boxed()),
        (on(attribs, 3), attr_local.boxed()),
        (on(f.empty_stat, 1), Just(Stat::Empty).boxed()),
        (on(goto, 2), (0u16..6).prop_map(Stat::Label).boxed()),
        (on(goto, 2), (0u16..6).prop_map(Stat::Goto).boxed()),
        (2, Just(Stat::Break).boxed()),
        (on(globals, 1), global_decl.boxed()),
        (on(globals, 1), prop_oneof![3 => Just(None), 1 => Just(Some(Attrib::Const))].prop_map(|attrib| Stat::GlobalAll { attrib }).boxed()),
    ];
    if let Some(b) = inner {
        let fname = (assignable_name(cx), vec(field_name(), 0..3), proptest::option::weighted(0.3, field_name()), any::<bool>()).prop_map(move |(base, path, method, ro_base)| {
            // a read-only name may be the base as long as something is indexed from it
            let base = if ro_base && (!path.is_empty() || method.is_some()) { "K".to_string() } else { base };
            FuncName { base, path, method: if m.has(Mask::METHODS) { method } else { None } }
        });
        let closures = m.has(Mask::CLOSURES);
        v.extend(vec![
            (2, b.clone().prop_map(Stat::Do).boxed()),
            (3, (e.clone(), b.clone()).prop_map(|(cond, body)| Stat::While { cond, body }).boxed()),
            (2, (b.clone(), e.clone()).prop_map(|(body, cond)| Stat::Repeat { body, cond }).boxed()),
            (
                4,
                (e.clone(), b.clone(), vec((e.clone(), b.clone()), 0..3), proptest::option::of(b.clone()))
                    .prop_map(|(cond, then, elseifs, els)| Stat::If { cond, then, elseifs, els })
                    .boxed(),
            ),
            (
                3,
                (pick(&["i", "j", "k"]), e.clone(), e.clone(), proptest::option::of(e.clone()), b.clone())
                    .prop_map(|(var, start, stop, step, body)| Stat::NumFor { var, start, stop, step, body })
                    .boxed(),
            ),
            (3, (vec(pick(&["k", "v", "i", "j"]), 1..4), exprs(1, 4), b.clone()).prop_map(|(vars, exprs, body)| Stat::GenFor { vars, exprs, body }).boxed()),
            (on(closures, 3), (fname, func_body(cx, b.clone())).prop_map(|(name, body)| Stat::Function { name, body }).boxed()),
            (on(closures, 2), (pick(ASSIGNABLE), func_body(cx, b.clone())).prop_map(|(name, body)| Stat::LocalFunction { name, body }).boxed()),
            (on(closures && globals, 1), (pick(ASSIGNABLE), func_body(cx, b)).prop_map(|(name, body)| Stat::GlobalFunction { name, body }).boxed()),
        ]);
    }
    weighted(v)
}

fn block(s: BoxedStrategy<Stat>, e: BoxedStrategy<Expr>, lo: usize, hi: usize) -> BoxedStrategy<Block> {
    let ret = proptest::option::weighted(0.25, (vec(e, 0..3), any::<bool>()).prop_map(|(exprs, semi)| Return { exprs, semi }));
    (vec(s, lo..hi + 1), ret).prop_map(|(stats, ret)| Block { stats, ret }).boxed()
}

/// programs of `level` with every feature allowed
pub fn program(level: Level, size: Size) -> BoxedStrategy<Program> {
    program_with(level, size, Mask::ALL)
}

pub fn program_with(level: Level, size: Size, mask: Mask) -> BoxedStrategy<Program> {
    let cx = Cx { level, f: level.feats(), m: mask };
    // level 0: leaf expressions, flat blocks
    let mut e: BoxedStrategy<Expr> = leaf_expr(cx);
    let mut b: BoxedStrategy<Block> = block(stat(cx, e.clone(), None), e.clone(), 0, size.nested);
    for _ in 0..size.depth {
        let e2 = compound_expr(cx, e.clone(), b.clone());
        let b2 = block(stat(cx, e2.clone(), Some(b.clone())), e2.clone(), 0, size.nested);
        e = e2;
        b = b2;
    }
    let top = block(stat(cx, e.clone(), Some(b)), e, 1, size.top);
    let strict = if cx.f.globals && mask.has(Mask::GLOBAL_DECL) { prop_oneof![3 => Just(false), 1 => Just(true)].boxed() } else { Just(false).boxed() };
    (top, strict, any::<u8>())
        .prop_map(move |(block, strict_globals, prologue_style)| {
            let mut p = Program { level, strict_globals, prologue_style, prologue: vec![], block };
            sanitize(&mut p);
            p
        })
        .boxed()
}
