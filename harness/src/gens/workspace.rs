//! Multi-file workspace generator (2–8 files) over a deliberately small name alphabet, so that the
//! same class / global / alias / enum / module is contributed by several files very often.
//!
//! A workspace is just `Vec<WsFile { name, text }>` (serde-serialisable, the order of the vector is
//! the registration order).  Inside a text, *blocks* (a statement with its doc comments) are separated
//! by one blank line – `simplify` uses that to drop whole files, whole blocks and single lines.
use proptest::prelude::*;
use proptest::sample::subsequence;
use serde::{Deserialize, Serialize};

#[derive(Clone, Debug, PartialEq, Eq, Serialize, Deserialize)]
pub struct WsFile {
    pub name: String,
    pub text: String,
}

#[derive(Clone, Debug, PartialEq, Eq, Serialize, Deserialize)]
pub struct Workspace {
    pub files: Vec<WsFile>,
}

pub const FILES: &[&str] = &["a.lua", "b.lua", "c.lua", "m/a.lua", "m/init.lua", "m.lua", "m/b.lua", "lib/d.lua", "n/m/a.lua"];
/// module names that `require` statements use (exact names of FILES, fuzzy suffixes, one unknown)
pub const MODULES: &[&str] = &["a", "b", "c", "m.a", "m", "m.b", "lib.d", "n.m.a", "d", "m.init", "zz"];
pub const CLASSES: &[&str] = &["Foo", "Bar", "Baz"];
pub const FIELDS: &[&str] = &["a", "b", "c"];
pub const METHODS: &[&str] = &["m", "n"];
pub const GLOBALS: &[&str] = &["G", "H", "K"];
pub const GFUNCS: &[&str] = &["gf", "gh"];
pub const ALIASES: &[&str] = &["Al", "Id"];
pub const ENUMS: &[&str] = &["En", "Color"];
pub const DESCS: &[&str] = &["Documented class", "doc one", "doc two", "second line\n--- of doc"];
pub const TYPES: &[&str] = &[
    "integer", "string", "boolean", "number", "Foo", "Bar", "Baz", "Al", "Id", "En", "Color", "integer|string", "Foo|nil", "string[]",
    "table<string, integer>", "fun(x: integer): string", "Foo?", "any", "Bar|Baz|nil", "{ a: integer, b: string }", "[integer, string]", "\"x\"|\"y\"", "Unknown1",
];
pub const VALUES: &[&str] = &["1", "\"s\"", "true", "{}", "nil", "{ a = 1 }", "function() end", "G", "H", "Foo", "1.5", "{ b = \"s\", c = {} }", "gf(1)", "Foo.a", "En.A"];
pub const CODES: &[&str] = &[
    "undefined-global", "assign-type-mismatch", "undefined-field", "param-type-mismatch", "duplicate-type", "unused", "redefined-local",
    "need-check-nil", "missing-fields", "inject-field", "duplicate-set-field", "duplicate-doc-field", "type-not-found", "missing-return", "return-type-mismatch",
];
pub const OPS: &[&str] = &["add", "sub", "concat", "call", "unm", "len", "eq", "lt"];

fn pick(items: &'static [&'static str]) -> BoxedStrategy<&'static str> {
    (0..items.len()).prop_map(move |i| items[i]).boxed()
}

fn desc_line(d: Option<&str>) -> String {
    match d {
        Some(d) => format!("--- {d}\n"),
        None => String::new(),
    }
}

fn opt_desc() -> BoxedStrategy<Option<&'static str>> {
    prop_oneof![2 => Just(None), 3 => pick(DESCS).prop_map(Some)].boxed()
}

/// one block (statement + its doc comments), no trailing newline, never contains a blank line
pub fn block() -> BoxedStrategy<String> {
    let class = (
        opt_desc(),
        pick(CLASSES),
        prop_oneof![3 => Just(None), 1 => pick(CLASSES).prop_map(Some)],
        0u8..6,
        proptest::collection::vec((pick(FIELDS), pick(TYPES), any::<bool>(), 0u8..4), 0..3),
        0u8..4,
    )
        .prop_map(|(d, name, parent, attr, fields, bind)| {
            let mut s = desc_line(d);
            let attr = match attr {
                0 => "(partial) ",
                1 => "(exact) ",
                _ => "",
            };
            match parent {
                Some(p) if p != name => s.push_str(&format!("---@class {attr}{name}: {p}\n")),
                _ => s.push_str(&format!("---@class {attr}{name}\n")),
            }
            for (f, t, fd, vis) in fields {
                let vis = match vis {
                    0 => "private ",
                    1 => "protected ",
                    _ => "",
                };
                s.push_str(&format!("---@field {vis}{f} {t}{}\n", if fd { " # field doc" } else { "" }));
            }
            match bind {
                0 => s.push_str(&format!("{name} = {{}}")),
                1 => s.push_str(&format!("local {name} = {{}}")),
                2 => s.push_str(&format!("{name} = {name} or {{}}")),
                _ => {
                    s.pop();
                }
            }
            s
        });
    let operator = (pick(CLASSES), pick(OPS), pick(TYPES), pick(TYPES)).prop_map(|(c, op, a, r)| match op {
        "unm" | "len" => format!("---@class {c}\n---@operator {op}: {r}"),
        _ => format!("---@class {c}\n---@operator {op}({a}): {r}"),
    });
    let method = (opt_desc(), pick(CLASSES), any::<bool>(), pick(METHODS), 0u8..8, pick(TYPES), pick(TYPES), 0u8..5).prop_map(
        |(d, c, colon, m, ann, pt, rt, body)| {
            let mut s = desc_line(d);
            if ann & 1 != 0 {
                s.push_str(&format!("---@param x {pt}\n"));
            }
            if ann & 2 != 0 {
                s.push_str(&format!("---@return {rt}\n"));
            }
            if ann & 4 != 0 {
                s.push_str(&format!("---@overload fun(x: {rt}): {pt}\n"));
            }
            if ann == 7 {
                s.push_str("---@deprecated use n\n");
            }
            let sep = if colon { ":" } else { "." };
            let body = match body {
                0 => "return x",
                1 => "return self",
                2 => "return 1",
                3 => "return G",
                _ => "",
            };
            s.push_str(&format!("function {c}{sep}{m}(x) {body} end"));
            s
        },
    );
    let gassign = (opt_desc(), pick(GLOBALS), prop_oneof![3 => Just(None), 1 => pick(TYPES).prop_map(Some)], pick(VALUES)).prop_map(|(d, g, t, v)| {
        let mut s = desc_line(d);
        if let Some(t) = t {
            s.push_str(&format!("---@type {t}\n"));
        }
        s.push_str(&format!("{g} = {v}"));
        s
    });
    let gfunc = (opt_desc(), pick(GFUNCS), 0u8..8, pick(TYPES), pick(TYPES), 0u8..4).prop_map(|(d, f, ann, pt, rt, body)| {
        let mut s = desc_line(d);
        if ann & 1 != 0 {
            s.push_str(&format!("---@param x {pt}\n"));
        }
        if ann & 2 != 0 {
            s.push_str(&format!("---@return {rt}\n"));
        }
        if ann & 4 != 0 {
            s.push_str(&format!("---@overload fun(x: {rt}, y: {pt}): {rt}\n"));
        }
        if ann == 6 {
            s.push_str("---@generic T\n---@param y T\n");
        }
        let body = match body {
            0 => "return x",
            1 => "return \"s\"",
            2 => "return H",
            _ => "",
        };
        s.push_str(&format!("function {f}(x, y) {body} end"));
        s
    });
    let fassign = (prop_oneof![pick(CLASSES), pick(GLOBALS)], pick(FIELDS), pick(VALUES), opt_desc()).prop_map(|(o, f, v, d)| format!("{}{o}.{f} = {v}", desc_line(d)));
    let require = (1u8..4, pick(MODULES), prop_oneof![2 => Just(None), 1 => pick(FIELDS).prop_map(Some)], any::<bool>()).prop_map(|(k, m, f, paren)| {
        let call = if paren { format!("require(\"{m}\")") } else { format!("require \"{m}\"") };
        match f {
            Some(f) => format!("local r{k} = {call}.{f}"),
            None => format!("local r{k} = {call}"),
        }
    });
    let alias = (opt_desc(), pick(ALIASES), pick(TYPES), 0u8..4).prop_map(|(d, a, t, form)| match form {
        0 => format!("{}---@alias {a}\n---| \"x\" # first\n---| \"y\"", desc_line(d)),
        _ => format!("{}---@alias {a} {t}", desc_line(d)),
    });
    let enum_ = (opt_desc(), pick(ENUMS), 0u8..4, 0u8..4).prop_map(|(d, e, form, vals)| {
        let key = if form == 0 { "(key) " } else { "" };
        let body = match vals {
            0 => "{ A = 1, B = 2 }",
            1 => "{ A = \"a\", B = \"b\" }",
            2 => "{ A = 1, C = \"c\" }",
            _ => "{}",
        };
        let local = if form == 1 { "local " } else { "" };
        format!("{}---@enum {key}{e}\n{local}{e} = {body}", desc_line(d))
    });
    let diag = (0u8..4, proptest::collection::vec(pick(CODES), 0..3), use_line()).prop_map(|(k, codes, u)| {
        let kind = match k {
            0 => "disable",
            1 => "enable",
            2 => "disable-next-line",
            _ => "disable-line",
        };
        let list = codes.join(", ");
        if list.is_empty() {
            format!("---@diagnostic {kind}\n{u}")
        } else {
            format!("---@diagnostic {kind}: {list}\n{u}")
        }
    });
    let typed_local = (1u8..4, pick(TYPES), 0u8..6).prop_map(|(k, t, follow)| {
        let mut s = format!("---@type {t}\nlocal o{k}");
        match follow {
            0 => s.push_str(&format!("\nlocal w{k} = o{k}.a")),
            1 => s.push_str(&format!("\nlocal w{k} = o{k} + o{k}")),
            2 => s.push_str(&format!("\nlocal w{k} = o{k}:m(1)")),
            3 => s.push_str(&format!("\no{k} = G")),
            4 => s.push_str(&format!("\nlocal w{k} = o{k}(1)")),
            _ => {}
        }
        s
    });
    prop_oneof![
        5 => class,
        2 => operator,
        3 => method,
        5 => gassign,
        2 => gfunc,
        3 => fassign,
        3 => require,
        2 => alias,
        2 => enum_,
        2 => diag,
        3 => typed_local,
        4 => use_line(),
    ]
    .boxed()
}

/// a use statement: reads of shared symbols (these are what the per-token semantic dump observes)
pub fn use_line() -> BoxedStrategy<String> {
    prop_oneof![
        (1u8..4, pick(CLASSES), pick(FIELDS)).prop_map(|(k, c, f)| format!("local v{k} = {c}.{f}")),
        (1u8..4, pick(GLOBALS)).prop_map(|(k, g)| format!("local v{k} = {g}")),
        (pick(GLOBALS), pick(FIELDS)).prop_map(|(g, f)| format!("print({g}.{f})")),
        (1u8..4, pick(GFUNCS), pick(VALUES)).prop_map(|(k, f, v)| format!("local v{k} = {f}({v})")),
        (1u8..4, pick(CLASSES), pick(METHODS)).prop_map(|(k, c, m)| format!("local v{k} = {c}:{m}(1)")),
        (1u8..4, pick(CLASSES), pick(METHODS)).prop_map(|(k, c, m)| format!("local v{k} = {c}.{m}(\"s\")")),
        pick(GLOBALS).prop_map(|g| format!("{g} = {g} + 1")),
        (1u8..4, pick(ENUMS)).prop_map(|(k, e)| format!("local v{k} = {e}.A")),
        (1u8..4, pick(ALIASES), pick(VALUES)).prop_map(|(k, a, v)| format!("---@type {a}\nlocal al{k} = {v}")),
        Just("undefinedThing()".to_string()),
        (1u8..4, pick(CLASSES)).prop_map(|(k, c)| format!("local t{k} = setmetatable({{}}, {{ __index = {c} }})")),
        (1u8..4, 1u8..4, pick(FIELDS)).prop_map(|(k, r, f)| format!("local q{k} = r{r}.{f}")),
        (1u8..4, pick(CLASSES)).prop_map(|(k, c)| format!("local s{k} = \"{c}\"")),
        (1u8..4, pick(TYPES)).prop_map(|(k, t)| format!("---@cast v{k} {t}")),
        (pick(CLASSES), pick(FIELDS), pick(VALUES)).prop_map(|(c, f, v)| format!("---@type {c}\nlocal lit = {{ {f} = {v} }}")),
        Just("::l1::\ngoto l1".to_string()),
        (pick(GLOBALS)).prop_map(|g| format!("for i, x in ipairs({g}) do print(i, x) end")),
        (pick(GLOBALS), pick(CLASSES)).prop_map(|(g, c)| format!("if {g} then {c}.a = nil end")),
    ]
    .boxed()
}

fn header() -> BoxedStrategy<Option<String>> {
    prop_oneof![
        12 => Just(None),
        2 => Just(Some("---@meta".to_string())),
        1 => pick(MODULES).prop_map(|m| Some(format!("---@meta {m}"))),
        1 => Just(Some("---@namespace NS".to_string())),
        1 => Just(Some("---@using NS".to_string())),
        1 => Just(Some("---@diagnostic disable: undefined-global".to_string())),
    ]
    .boxed()
}

fn ret() -> BoxedStrategy<Option<String>> {
    prop_oneof![
        4 => Just(None),
        2 => pick(CLASSES).prop_map(|c| Some(format!("return {c}"))),
        1 => pick(GLOBALS).prop_map(|c| Some(format!("return {c}"))),
        2 => (pick(FIELDS), pick(VALUES)).prop_map(|(f, v)| Some(format!("return {{ {f} = {v}, m = gf }}"))),
        1 => pick(MODULES).prop_map(|m| Some(format!("return require(\"{m}\")"))),
        1 => Just(Some("return 1".to_string())),
        1 => (1u8..4).prop_map(|k| Some(format!("return r{k}"))),
    ]
    .boxed()
}

fn render_parts(h: Option<String>, blocks: Vec<String>, r: Option<String>) -> String {
    let mut parts: Vec<String> = vec![];
    parts.extend(h);
    parts.extend(blocks);
    parts.extend(r);
    let mut t = parts.join("\n\n");
    if !t.is_empty() {
        t.push('\n');
    }
    t
}

type Parts = (Option<String>, Vec<String>, Option<String>);

fn file_parts(max_blocks: usize) -> BoxedStrategy<Parts> {
    (header(), proptest::collection::vec(block(), 0..=max_blocks), ret()).boxed()
}

/// text of one file: optional header block, 0..max blocks, optional return block
pub fn file_text(max_blocks: usize) -> BoxedStrategy<String> {
    file_parts(max_blocks).prop_map(|(h, b, r)| render_parts(h, b, r)).boxed()
}

/// cross-file constructions injected on top of the random blocks so that the interesting sharing
/// patterns are frequent: (kind, file i, file j, name index)
#[derive(Clone, Debug)]
enum Inject {
    /// file i requires file j and file j requires file i
    Cycle(u16, u16),
    /// a global assigned an integer in file i and a string in file j
    Conflict(u16, u16, u8),
    /// a class documented in file i and re-declared bare in file j
    SplitClass(u16, u16, u8),
    /// the same field declared with different types in two files
    FieldClash(u16, u16, u8),
}

fn inject() -> BoxedStrategy<Inject> {
    prop_oneof![
        (any::<u16>(), any::<u16>()).prop_map(|(i, j)| Inject::Cycle(i, j)),
        (any::<u16>(), any::<u16>(), 0u8..3).prop_map(|(i, j, g)| Inject::Conflict(i, j, g)),
        (any::<u16>(), any::<u16>(), 0u8..3).prop_map(|(i, j, g)| Inject::SplitClass(i, j, g)),
        (any::<u16>(), any::<u16>(), 0u8..3).prop_map(|(i, j, g)| Inject::FieldClash(i, j, g)),
    ]
    .boxed()
}

fn module_of(file: &str) -> String {
    let s = file.trim_end_matches(".lua");
    let s = s.strip_suffix("/init").unwrap_or(s);
    s.replace('/', ".")
}

/// a workspace of `min..=max` files with distinct names in a random registration order
pub fn workspace(min: usize, max: usize, max_blocks: usize) -> BoxedStrategy<Workspace> {
    let max = max.min(FILES.len());
    subsequence(FILES.to_vec(), min..=max)
        .prop_shuffle()
        .prop_flat_map(move |names| {
            let n = names.len();
            (Just(names), proptest::collection::vec(file_parts(max_blocks), n..=n), proptest::collection::vec(inject(), 0..3))
        })
        .prop_map(|(names, mut parts, injects)| {
            let n = names.len();
            for inj in injects {
                let two = |i: u16, j: u16| {
                    let a = crate::gens::util::idx(i, n);
                    let mut b = crate::gens::util::idx(j, n);
                    if a == b {
                        b = (a + 1) % n;
                    }
                    (a, b)
                };
                match inj {
                    Inject::Cycle(i, j) => {
                        let (a, b) = two(i, j);
                        if a != b {
                            parts[a].1.push(format!("local rc = require(\"{}\")", module_of(names[b])));
                            parts[b].1.push(format!("local rc = require(\"{}\")", module_of(names[a])));
                        }
                    }
                    Inject::Conflict(i, j, g) => {
                        let (a, b) = two(i, j);
                        let g = GLOBALS[g as usize % GLOBALS.len()];
                        parts[a].1.push(format!("{g} = 1"));
                        if a != b {
                            parts[b].1.push(format!("{g} = \"s\""));
                        }
                    }
                    Inject::SplitClass(i, j, c) => {
                        let (a, b) = two(i, j);
                        let c = CLASSES[c as usize % CLASSES.len()];
                        parts[a].1.push(format!("--- Documented class\n---@class {c}"));
                        if a != b {
                            parts[b].1.push(format!("---@class {c}"));
                        }
                    }
                    Inject::FieldClash(i, j, c) => {
                        let (a, b) = two(i, j);
                        let c = CLASSES[c as usize % CLASSES.len()];
                        parts[a].1.push(format!("---@class {c}\n---@field a integer"));
                        if a != b {
                            parts[b].1.push(format!("---@class {c}\n---@field a string"));
                        }
                    }
                }
            }
            Workspace { files: names.into_iter().zip(parts).map(|(n, (h, b, r))| WsFile { name: n.to_string(), text: render_parts(h, b, r) }).collect() }
        })
        .boxed()
}

/// a file name not (necessarily) in the workspace plus a text: used by histories that add files
pub fn any_file(max_blocks: usize) -> BoxedStrategy<WsFile> {
    (pick(FILES), file_text(max_blocks)).prop_map(|(n, t)| WsFile { name: n.to_string(), text: t }).boxed()
}

pub fn blocks_of(text: &str) -> Vec<&str> {
    text.split("\n\n").filter(|b| !b.trim().is_empty()).collect()
}

fn join_blocks(blocks: &[&str]) -> String {
    let mut t = blocks.iter().map(|b| b.trim_end_matches('\n')).collect::<Vec<_>>().join("\n\n");
    if !t.is_empty() {
        t.push('\n');
    }
    t
}

/// structure-aware simplification of one text: drop one block, then drop one line
pub fn simplify_text(text: &str) -> Vec<String> {
    let mut out = vec![];
    let blocks = blocks_of(text);
    if blocks.len() > 1 {
        // halves first
        let h = blocks.len() / 2;
        out.push(join_blocks(&blocks[..h]));
        out.push(join_blocks(&blocks[h..]));
    }
    for i in 0..blocks.len() {
        let mut b = blocks.clone();
        b.remove(i);
        out.push(join_blocks(&b));
    }
    let lines: Vec<&str> = text.lines().collect();
    if lines.len() > 1 {
        for i in 0..lines.len() {
            let mut l = lines.clone();
            l.remove(i);
            let mut t = l.join("\n");
            t.push('\n');
            out.push(t);
        }
    }
    out.retain(|t| t != text);
    out
}

/// ddmin candidates for a workspace: drop a file (keeping at least `min_files`), drop a block, drop a line
pub fn simplify(ws: &Workspace, min_files: usize) -> Vec<Workspace> {
    let mut out = vec![];
    if ws.files.len() > min_files {
        for i in 0..ws.files.len() {
            let mut w = ws.clone();
            w.files.remove(i);
            out.push(w);
        }
    }
    for i in 0..ws.files.len() {
        for t in simplify_text(&ws.files[i].text) {
            let mut w = ws.clone();
            w.files[i].text = t;
            out.push(w);
        }
    }
    out
}

/// the type name declared by a `---@class` / `---@alias` / `---@enum` line
fn declared_type(l: &str) -> Option<&str> {
    let rest = l.strip_prefix("---@class").or_else(|| l.strip_prefix("---@alias")).or_else(|| l.strip_prefix("---@enum"))?;
    let mut rest = rest.trim_start();
    if rest.starts_with('(') {
        rest = rest[rest.find(')')? + 1..].trim_start();
    }
    let end = rest.find(|c: char| !(c.is_alphanumeric() || c == '_' || c == '.')).unwrap_or(rest.len());
    Some(&rest[..end])
}

fn line_defines(l: &str, name: &str) -> bool {
    let l = l.trim();
    declared_type(l) == Some(name)
        || l.starts_with(&format!("{name} = "))
        || l.starts_with(&format!("function {name}("))
        || l.starts_with(&format!("function {name}."))
        || l.starts_with(&format!("function {name}:"))
        || l.starts_with(&format!("{name}."))
}

/// symbols (class / alias / enum / global names of the alphabet) that at least two files *define*
pub fn shared_symbols(ws: &Workspace) -> Vec<String> {
    let mut out = vec![];
    let defs = |text: &str, name: &str| -> bool { text.lines().any(|l| line_defines(l, name)) };
    for name in CLASSES.iter().chain(ALIASES).chain(ENUMS).chain(GLOBALS).chain(GFUNCS) {
        let n = ws.files.iter().filter(|f| defs(&f.text, name)).count();
        if n >= 2 {
            out.push(name.to_string());
        }
    }
    out
}

/// does this file define (contribute to) one of the given symbols?
pub fn file_contributes(file: &WsFile, symbols: &[String]) -> bool {
    let one = Workspace { files: vec![file.clone(), file.clone()] };
    let mine = shared_symbols(&one);
    symbols.iter().any(|s| mine.contains(s))
}

/// a global assigned values of different literal kinds in two different files (C11's conflict class)
pub fn has_conflicting_global(ws: &Workspace) -> bool {
    for g in GLOBALS {
        let mut kinds: Vec<(usize, char)> = vec![];
        for (i, f) in ws.files.iter().enumerate() {
            for l in f.text.lines() {
                if let Some(rest) = l.trim().strip_prefix(&format!("{g} = ")) {
                    let k = rest.chars().next().unwrap_or(' ');
                    let k = if k.is_ascii_digit() { '0' } else { k };
                    kinds.push((i, k));
                }
            }
        }
        for a in &kinds {
            for b in &kinds {
                if a.0 != b.0 && a.1 != b.1 {
                    return true;
                }
            }
        }
    }
    false
}
