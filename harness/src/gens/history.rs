//! Shared machinery of the analysis-state history checks (C08–C11): configuration model, fresh analyses,
//! batch loading, dumps, the C11 determinism filter.
use crate::gens::workspace::{self as wsgen, Workspace, WsFile};
use crate::oracle::dump::{self, Dump, DumpOpts};
use emmylua_code_analysis::{file_path_to_uri, DiagnosticCode, EmmyLuaAnalysis, Emmyrc, FileId, WorkspaceFolder};
use lsp_types::Uri;
use proptest::prelude::*;
use serde::{Deserialize, Serialize};
use std::path::PathBuf;
use std::sync::Arc;

/// the part of the configuration the histories vary
#[derive(Clone, Debug, Default, PartialEq, Eq, Serialize, Deserialize)]
pub struct Cfg {
    /// 0 latest, 1 Lua5.1, 2 Lua5.3, 3 LuaJIT, 4 Lua5.4
    pub version: u8,
    pub strict_require_path: bool,
    pub strict_type_call: bool,
    pub strict_array_index: bool,
    pub meta_override_file_define: bool,
    /// 0 default, 1 ["?.lua"], 2 ["?.lua", "?/init.lua", "m/?.lua"]
    pub require_pattern: u8,
    /// 0 default, 1 [".lua", ".txt"]
    pub extensions: u8,
    pub disable: Vec<String>,
    pub globals: Vec<String>,
}

impl Cfg {
    pub fn base() -> Cfg {
        Cfg { strict_array_index: true, meta_override_file_define: true, ..Default::default() }
    }
    pub fn emmyrc(&self) -> Arc<Emmyrc> {
        let version = match self.version {
            1 => "Lua5.1",
            2 => "Lua5.3",
            3 => "LuaJIT",
            4 => "Lua5.4",
            _ => "LuaLatest",
        };
        let mut runtime = serde_json::json!({ "version": version });
        match self.require_pattern {
            1 => runtime["requirePattern"] = serde_json::json!(["?.lua"]),
            2 => runtime["requirePattern"] = serde_json::json!(["?.lua", "?/init.lua", "m/?.lua"]),
            _ => {}
        }
        if self.extensions == 1 {
            runtime["extensions"] = serde_json::json!([".lua", ".txt"]);
        }
        let enables: Vec<String> = DiagnosticCode::all().iter().map(|c| c.get_name().to_string()).filter(|n| n != "none" && !self.disable.contains(n)).collect();
        let j = serde_json::json!({
            "runtime": runtime,
            "strict": {
                "requirePath": self.strict_require_path,
                "typeCall": self.strict_type_call,
                "arrayIndex": self.strict_array_index,
                "metaOverrideFileDefine": self.meta_override_file_define,
            },
            "diagnostics": {
                "enables": enables,
                "disable": self.disable,
                "globals": self.globals,
            },
        });
        Arc::new(serde_json::from_value::<Emmyrc>(j).expect("emmyrc json"))
    }
}

pub fn cfg_strategy() -> BoxedStrategy<Cfg> {
    (
        prop_oneof![3 => Just(0u8), 1 => 1u8..5],
        any::<bool>(),
        any::<bool>(),
        any::<bool>(),
        any::<bool>(),
        prop_oneof![3 => Just(0u8), 1 => 1u8..3],
        prop_oneof![4 => Just(0u8), 1 => Just(1u8)],
        proptest::collection::vec((0..wsgen::CODES.len()).prop_map(|i| wsgen::CODES[i].to_string()), 0..3),
        proptest::collection::vec((0..wsgen::GLOBALS.len()).prop_map(|i| wsgen::GLOBALS[i].to_string()), 0..2),
    )
        .prop_map(|(version, a, b, c, d, require_pattern, extensions, disable, globals)| Cfg {
            version,
            strict_require_path: a,
            strict_type_call: b,
            strict_array_index: c,
            meta_override_file_define: d,
            require_pattern,
            extensions,
            disable,
            globals,
        })
        .boxed()
}

/// how the analysis is set up (part of every case)
#[derive(Clone, Debug, Default, PartialEq, Eq, Serialize, Deserialize)]
pub struct Setup {
    /// load the bundled std library first
    pub std: bool,
    /// register `<base>/lib` as a library workspace
    pub lib_root: bool,
}

pub fn setup_strategy() -> BoxedStrategy<Setup> {
    (prop_oneof![5 => Just(false), 1 => Just(true)], prop_oneof![3 => Just(false), 1 => Just(true)]).prop_map(|(std, lib_root)| Setup { std, lib_root }).boxed()
}

/// a fixed virtual base directory: paths are identical in every process
pub fn base() -> PathBuf {
    PathBuf::from("/vws/proj")
}

pub fn uri_of(name: &str) -> Uri {
    file_path_to_uri(&base().join(name)).expect("uri")
}

pub fn new_analysis(cfg: &Cfg, setup: &Setup) -> EmmyLuaAnalysis {
    let mut a = EmmyLuaAnalysis::new();
    a.update_config(cfg.emmyrc());
    if setup.std {
        a.init_std_lib(None);
    }
    a.add_main_workspace(base());
    if setup.lib_root {
        a.add_library_workspace(&WorkspaceFolder::new(base().join("lib"), true));
    }
    a
}

/// the production batch path (didChangeWatchedFiles / workspace load)
pub fn load_batch(a: &mut EmmyLuaAnalysis, files: &[WsFile]) -> Vec<FileId> {
    a.update_files_by_uri(files.iter().map(|f| (uri_of(&f.name), Some(f.text.clone()))).collect())
}

pub const NAME_PROBES: &[&str] = &["G", "H", "K", "gf", "gh", "Foo", "Bar", "Baz", "En", "Color", "Al", "Id", "a", "b", "c", "m", "n", "A", "B"];

/// dump used by the history checks C08-C10 (mismatch explanations stripped, see `DumpOpts`)
pub fn dump_of(a: &EmmyLuaAnalysis, dead: &[(FileId, String)]) -> Dump {
    let b = base();
    dump::dump(a, &DumpOpts { base: &b, dead, module_probes: wsgen::MODULES, name_probes: NAME_PROBES, strip_mismatch_reason: true })
}

/// full dump (C11)
pub fn dump_full(a: &EmmyLuaAnalysis) -> Dump {
    let b = base();
    dump::dump(a, &DumpOpts { base: &b, dead: &[], module_probes: wsgen::MODULES, name_probes: NAME_PROBES, strip_mismatch_reason: false })
}

/// a fresh analysis of `files` (registration order = slice order) through one batch update
pub fn fresh(cfg: &Cfg, setup: &Setup, files: &[WsFile], reindex: bool) -> EmmyLuaAnalysis {
    let mut a = new_analysis(cfg, setup);
    load_batch(&mut a, files);
    if reindex {
        a.reindex();
    }
    a
}

/// The C11 filter used by C08/C09: `n` further fresh analyses with the same registration order must give
/// the dump `reference`; otherwise the case is order/hash dependent and is not judged.
pub fn is_deterministic(cfg: &Cfg, setup: &Setup, files: &[WsFile], reindex: bool, reference: &Dump, n: usize) -> bool {
    for _ in 0..n {
        let a = fresh(cfg, setup, files, reindex);
        if dump_of(&a, &[]) != *reference {
            return false;
        }
    }
    true
}

/// H1 sizes as a sorted map
pub fn sizes(a: &EmmyLuaAnalysis) -> Vec<(String, usize)> {
    a.compilation.get_db().verif_index_sizes()
}

/// keys whose count grew from `before` to `after`
pub fn grown(before: &[(String, usize)], after: &[(String, usize)]) -> Vec<(String, usize, usize)> {
    let mut out = vec![];
    for (k, v) in after {
        let b = before.iter().find(|x| x.0 == *k).map(|x| x.1).unwrap_or(0);
        if *v > b {
            out.push((k.clone(), b, *v));
        }
    }
    out
}

pub fn ws_label(ws: &Workspace, obs: &mut crate::engine::Obs) {
    obs.class(&format!("files:{}", ws.files.len()));
    let all: String = ws.files.iter().map(|f| f.text.as_str()).collect::<Vec<_>>().join("\n");
    obs.class_if(all.contains("---@class"), "has-class");
    obs.class_if(all.contains("---@alias"), "has-alias");
    obs.class_if(all.contains("---@enum"), "has-enum");
    obs.class_if(all.contains("---@operator"), "has-operator");
    obs.class_if(all.contains("---@overload"), "has-overload");
    obs.class_if(all.contains("---@diagnostic"), "has-diagnostic-annotation");
    obs.class_if(all.contains("---@meta"), "has-meta");
    obs.class_if(all.contains("---@namespace") || all.contains("---@using"), "has-namespace");
    obs.class_if(all.contains("require"), "has-require");
    obs.class_if(!wsgen::shared_symbols(ws).is_empty(), "shared-symbol");
    obs.class_if(wsgen::has_conflicting_global(ws), "conflicting-global");
    obs.class_if(has_require_cycle(ws), "require-cycle");
}

/// module name (default patterns) of a generated file name
pub fn module_name(file: &str) -> String {
    let s = file.trim_end_matches(".lua");
    let s = s.strip_suffix("/init").unwrap_or(s);
    s.replace('/', ".")
}

fn requires_of(text: &str) -> Vec<String> {
    let mut out = vec![];
    for l in text.lines() {
        let mut rest = l;
        while let Some(i) = rest.find("require") {
            rest = &rest[i + 7..];
            if let Some(a) = rest.find('"') {
                if let Some(b) = rest[a + 1..].find('"') {
                    out.push(rest[a + 1..a + 1 + b].to_string());
                }
            }
        }
    }
    out
}

/// a cycle a -> b -> a in the exact-name require graph
pub fn has_require_cycle(ws: &Workspace) -> bool {
    let names: Vec<String> = ws.files.iter().map(|f| module_name(&f.name)).collect();
    let edges: Vec<Vec<usize>> = ws.files.iter().map(|f| requires_of(&f.text).iter().filter_map(|r| names.iter().position(|n| n == r)).collect()).collect();
    // reachability from each node back to itself
    for s in 0..names.len() {
        let mut seen = vec![false; names.len()];
        let mut stack: Vec<usize> = edges[s].clone();
        while let Some(x) = stack.pop() {
            if x == s {
                return true;
            }
            if !seen[x] {
                seen[x] = true;
                stack.extend(edges[x].iter().copied());
            }
        }
    }
    false
}

/// signatures of the open known findings of one property (so a check can keep looking *behind* a known
/// defect inside one case: among all candidate failures it reports the first one that is not known)
pub fn open_sigs(prop: &str) -> Vec<String> {
    let root = PathBuf::from(std::env::var("VERIF_ROOT").unwrap_or_else(|_| "/verif".into()));
    crate::engine::findings::load(&root).into_iter().filter(|e| e.property == prop && e.status == "open").map(|e| e.signature).collect()
}

/// Candidate failures from comparing a reference dump with the dump under judgement: one per differing
/// index-level section; if none of those differs, the first differing computed section.
pub fn dump_candidates(prefix: &str, reference: &Dump, got: &Dump) -> Vec<(String, String)> {
    dump_candidates_touched(prefix, reference, got, None, None)
}

/// `touched`: names of the files the history re-submitted / edited (None = unknown).  A member that
/// disappears although its own file was not touched was attached across files (its owner is resolved
/// through a declaration in a touched file) and was not re-attached.
///
/// `files`: the current texts; lets a diagnostics-only difference be tied to the source line it is
/// reported on (does that line use a global that has declarations in several files?).
pub fn dump_candidates_touched(prefix: &str, reference: &Dump, got: &Dump, touched: Option<&[String]>, files: Option<&[WsFile]>) -> Vec<(String, String)> {
    let diffs = reference.diff(got);
    let mut out = vec![];
    let is_root = |d: &dump::Diff| dump::ROOT_SECTIONS.contains(&d.section.as_str());
    let any_root = diffs.iter().any(is_root);
    if std::env::var("VERIF_DEBUG_DIFF").is_ok() {
        eprintln!("--- full diff ({prefix})\n{}", dump::render_diffs(&diffs, 200));
    }
    // names with global declarations in >= 2 files: the declaration list of such a name is kept in analysis
    // order and "the first declaration" decides definition, type and member ownership (C08-F5).  If every
    // differing line (diagnostics aside) is about such a name, that is the root cause.
    let mut multi: Vec<String> = vec![];
    if let Some(globals) = reference.sections.get("global") {
        let mut seen: Vec<(String, String)> = vec![];
        for g in globals {
            let name = g.split(" at ").next().unwrap_or("").to_string();
            let file = g.split(" at ").nth(1).unwrap_or("").split('@').next().unwrap_or("").to_string();
            if seen.iter().any(|(n, f)| *n == name && *f != file) && !multi.contains(&name) {
                multi.push(name.clone());
            }
            seen.push((name, file));
        }
    }
    let mentions = |line: &String| -> bool { line.split(|c: char| !(c.is_alphanumeric() || c == '_')).any(|w| multi.iter().any(|m| m == w)) };
    let about_multi = |d: &dump::Diff| -> bool { !multi.is_empty() && d.only_left.iter().chain(d.only_right.iter()).all(mentions) };
    // owners with one member key defined in >= 2 files: the definitions of a key are kept in analysis order
    // (LuaMemberIndexItem::Many) and the first one decides type checks (C08-F11)
    let mut multi_member_owners: Vec<String> = vec![];
    if let Some(members) = reference.sections.get("member") {
        let mut seen: Vec<(String, String)> = vec![];
        for m in members {
            let key = m.split(" at ").next().unwrap_or("").to_string();
            let file = m.split(" at ").nth(1).unwrap_or("").split('@').next().unwrap_or("").to_string();
            if seen.iter().any(|(k, f)| *k == key && *f != file) {
                let owner = key.rsplit_once('.').map(|x| x.0).unwrap_or(&key).rsplit(':').next().unwrap_or("").to_string();
                if !multi_member_owners.contains(&owner) {
                    multi_member_owners.push(owner);
                }
            }
            seen.push((key, file));
        }
    }
    if !any_root && !multi_member_owners.is_empty() {
        if let Some(d) = diffs.iter().find(|d| d.section != "diag" || diffs.len() == 1) {
            let mentions_owner = |line: &String| line.split(|c: char| !(c.is_alphanumeric() || c == '_' || c == '.')).any(|w| multi_member_owners.iter().any(|m| m == w));
            if d.only_left.iter().chain(d.only_right.iter()).all(mentions_owner) {
                return vec![(format!("{prefix}member-definition-order"), dump::render_diffs(&diffs, 10))];
            }
        }
    }
    if !any_root && diffs.len() == 1 && diffs[0].section == "diag" && !multi.is_empty() {
        if let Some(files) = files {
            // "<file> L:C-L:C code ..." -> the source line the diagnostic sits on
            let on_multi_line = |line: &String| -> bool {
                let mut it = line.split(' ');
                let (Some(file), Some(range)) = (it.next(), it.next()) else { return false };
                let Some(row) = range.split(':').next().and_then(|r| r.parse::<usize>().ok()) else { return false };
                let Some(f) = files.iter().find(|f| f.name == file) else { return false };
                let Some(src) = f.text.lines().nth(row) else { return false };
                src.split(|c: char| !(c.is_alphanumeric() || c == '_')).any(|w| multi.iter().any(|m| m == w))
            };
            if diffs[0].only_left.iter().chain(diffs[0].only_right.iter()).all(on_multi_line) {
                return vec![(format!("{prefix}multi-decl-global-order"), dump::render_diffs(&diffs, 10))];
            }
        }
    }
    if !any_root {
        if let Some(d) = diffs.iter().find(|d| d.section == "sem") {
            let k = dump::classify_with(&[d.clone()], Some(reference));
            if k == "sem:global-decl-switched" || k == "sem:multi-decl-global-type-changed" || about_multi(d) {
                return vec![(format!("{prefix}multi-decl-global-order"), dump::render_diffs(&diffs, 10))];
            }
        }
    }
    if any_root && diffs.iter().filter(|d| is_root(d)).all(dump::additions_or_type_only) && diffs.iter().filter(|d| is_root(d)).any(|d| d.only_right.len() > d.only_left.len()) {
        // at index level nothing disappeared or changed, facts were only added (computed sections follow
        // from them): the state under judgement has resolved more than the reference
        // against the plain-resubmission control the extra facts are leftovers of the undone edit
        let what = if prefix == "undo:" { "stale-additions" } else { "resubmit-resolves-more" };
        return vec![(format!("{prefix}{what}"), dump::render_diffs(&diffs, 10))];
    }
    for d in &diffs {
        if !is_root(d) && (any_root || !out.is_empty()) {
            // computed sections (minfo, ref, sem, diag) follow from the index-level sections; they are
            // judged only when no index-level section differs, and then only the first of them
            continue;
        }
        if d.section == "desc" {
            // the documentation of a member / global that itself appeared or disappeared follows from that
            let follows = |line: &String| -> bool {
                (line.starts_with("member:") && diffs.iter().any(|x| x.section == "member")) || (line.starts_with("global:") && diffs.iter().any(|x| x.section == "global"))
            };
            let mut f = d.clone();
            f.only_left.retain(|l| !follows(l));
            f.only_right.retain(|l| !follows(l));
            if f.only_left.is_empty() && f.only_right.is_empty() {
                continue;
            }
            let one = vec![f];
            out.push((format!("{prefix}{}", dump::classify_with(&one, Some(reference))), dump::render_diffs(&one, 10)));
            continue;
        }
        if d.section == "member" && d.only_right.is_empty() {
            if let Some(touched) = touched {
                let file_of = |l: &String| l.split(" at ").nth(1).unwrap_or("").split('@').next().unwrap_or("").to_string();
                if d.only_left.iter().all(|l| !touched.contains(&file_of(l))) {
                    out.push((format!("{prefix}cross-file-member-lost"), dump::render_diffs(&[d.clone()], 10)));
                    continue;
                }
                if d.only_left.iter().all(|l| touched.contains(&file_of(l))) {
                    // the re-analysis of the member's own file no longer attaches it
                    out.push((format!("{prefix}resubmit-resolves-less"), dump::render_diffs(&[d.clone()], 10)));
                    continue;
                }
            }
        }
        let one = vec![d.clone()];
        if is_root(d) && d.section != "desc" && about_multi(d) {
            let sig = format!("{prefix}multi-decl-global-order");
            if !out.iter().any(|o: &(String, String)| o.0 == sig) {
                out.push((sig, dump::render_diffs(&one, 10)));
            }
            continue;
        }
        out.push((format!("{prefix}{}", dump::classify_with(&one, Some(reference))), dump::render_diffs(&one, 10)));
    }
    out
}

/// first candidate whose signature is not an open known finding, else the first candidate
pub fn select(cands: Vec<(String, String)>, open: &[String]) -> Option<(String, String)> {
    if cands.is_empty() {
        return None;
    }
    let i = cands.iter().position(|c| !open.contains(&c.0)).unwrap_or(0);
    cands.into_iter().nth(i)
}
