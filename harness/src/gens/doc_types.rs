//! Types of the EmmyLua annotation grammar as a serialisable AST, with a renderer to annotation text and a
//! "world" (prelude file) declaring the classes / generic classes / aliases / enums the types refer to.
//!
//! References into the world are raw `u8` indices reduced modulo the number of declarations at render
//! time, so that every (world, type) pair is valid by construction and shrinks without stalling.
use proptest::prelude::*;
use serde::{Deserialize, Serialize};

pub const PRIMS: &[&str] = &["string", "integer", "number", "boolean", "nil", "any", "table", "function", "thread", "userdata", "unknown"];

#[derive(Clone, Debug, Serialize, Deserialize, PartialEq)]
pub enum Key {
    Name(String),
    Int(i64),
    /// `["text"]`
    Str(String),
    /// `[string]` / `[integer]` index signature
    Ty(Box<Ty>),
}

#[derive(Clone, Debug, Serialize, Deserialize, PartialEq)]
pub struct Field {
    pub key: Key,
    pub optional: bool,
    pub ty: Ty,
}

#[derive(Clone, Debug, Serialize, Deserialize, PartialEq)]
pub struct Param {
    pub name: String,
    pub optional: bool,
    pub ty: Ty,
}

#[derive(Clone, Debug, Serialize, Deserialize, PartialEq)]
pub enum Ty {
    Prim(u8),
    /// string literal: value, single-quoted?
    Str(String, bool),
    /// integer literal, source text (decimal / negative / hex)
    Int(String),
    Bool(bool),
    Union(Vec<Ty>),
    Opt(Box<Ty>),
    Array(Box<Ty>),
    Tuple(Vec<Ty>),
    Map(Box<Ty>, Box<Ty>),
    Record(Vec<Field>),
    Fun { is_async: bool, params: Vec<Param>, vararg: Option<Box<Ty>>, rets: Vec<Ty> },
    /// instance of a generic class of the world
    Generic(u8, Vec<Ty>),
    Class(u8),
    Alias(u8),
    Enum(u8),
    /// a generic parameter name (only used inside templates / generic class bodies)
    Tpl(String),
}

#[derive(Clone, Debug, Serialize, Deserialize, PartialEq)]
pub struct ClassDecl {
    /// raw indices, reduced modulo the class's own index (only earlier classes: no cycles)
    pub supers: Vec<u8>,
    /// optional generic-instance super `Gk<args>`
    pub generic_super: Option<(u8, Vec<Ty>)>,
    pub fields: Vec<(String, Ty)>,
    pub dotted: bool,
}

#[derive(Clone, Debug, Serialize, Deserialize, PartialEq)]
pub struct GenericDecl {
    pub nparams: u8,
    /// field types may use Tpl("T") / Tpl("K") / Tpl("V")
    pub fields: Vec<(String, Ty)>,
}

#[derive(Clone, Debug, Serialize, Deserialize, PartialEq)]
pub enum AliasDecl {
    /// `---@alias An <type>`; may refer to classes, enums and earlier aliases
    Plain(Ty),
    /// multi-line literal union `---| "a"`
    Lines(Vec<Ty>),
}

#[derive(Clone, Debug, Serialize, Deserialize, PartialEq)]
pub struct EnumDecl {
    pub key: bool,
    pub string_values: bool,
    pub n: u8,
}

#[derive(Clone, Debug, Serialize, Deserialize, PartialEq)]
pub struct World {
    pub classes: Vec<ClassDecl>,
    pub generics: Vec<GenericDecl>,
    pub aliases: Vec<AliasDecl>,
    pub enums: Vec<EnumDecl>,
}

impl World {
    pub fn class_name(&self, raw: u8) -> String {
        let i = raw as usize % self.classes.len().max(1);
        if self.classes.get(i).map(|c| c.dotted).unwrap_or(false) { format!("ns.C{i}") } else { format!("C{i}") }
    }
    pub fn class_index(&self, raw: u8) -> usize {
        raw as usize % self.classes.len().max(1)
    }
    pub fn generic_index(&self, raw: u8) -> usize {
        raw as usize % self.generics.len().max(1)
    }
    pub fn generic_name(&self, raw: u8) -> String {
        format!("G{}", self.generic_index(raw))
    }
    pub fn generic_arity(&self, raw: u8) -> usize {
        self.generics.get(self.generic_index(raw)).map(|g| g.nparams.clamp(1, 2) as usize).unwrap_or(1)
    }
    pub fn alias_name(&self, raw: u8) -> String {
        format!("A{}", raw as usize % self.aliases.len().max(1))
    }
    pub fn enum_name(&self, raw: u8) -> String {
        format!("E{}", raw as usize % self.enums.len().max(1))
    }
    /// direct class supers of class `i` (indices), duplicates removed
    pub fn direct_supers(&self, i: usize) -> Vec<usize> {
        let mut out = vec![];
        if i == 0 {
            return out;
        }
        for s in &self.classes[i].supers {
            let j = *s as usize % i;
            if !out.contains(&j) {
                out.push(j);
            }
        }
        out
    }
    /// all class ancestors of class `i` (transitive, excluding `i`)
    pub fn ancestors(&self, i: usize) -> Vec<usize> {
        let mut seen = vec![];
        let mut stack = self.direct_supers(i);
        while let Some(j) = stack.pop() {
            if !seen.contains(&j) {
                seen.push(j);
                stack.extend(self.direct_supers(j));
            }
        }
        seen.sort();
        seen
    }
    /// generic-instance ancestors (own and inherited through class ancestors) as rendered type texts
    pub fn generic_ancestors(&self, i: usize) -> Vec<String> {
        let mut out = vec![];
        let mut all = self.ancestors(i);
        all.push(i);
        for j in all {
            if let Some((g, args)) = &self.classes[j].generic_super {
                out.push(self.render(&Ty::Generic(*g, args.clone())));
            }
        }
        out.sort();
        out.dedup();
        out
    }

    /// the prelude file declaring everything
    pub fn prelude(&self) -> String {
        let mut s = String::new();
        for (i, g) in self.generics.iter().enumerate() {
            let ps = if g.nparams.clamp(1, 2) == 1 { "T" } else { "K, V" };
            s.push_str(&format!("---@class G{i}<{ps}>\n"));
            for (n, t) in &g.fields {
                s.push_str(&format!("---@field {n} {}\n", self.render(t)));
            }
            s.push('\n');
        }
        for (i, c) in self.classes.iter().enumerate() {
            let mut sup: Vec<String> = self.direct_supers(i).into_iter().map(|j| self.class_name(j as u8)).collect();
            if let Some((g, args)) = &c.generic_super {
                sup.push(self.render(&Ty::Generic(*g, args.clone())));
            }
            s.push_str(&format!("---@class {}", self.class_name(i as u8)));
            if !sup.is_empty() {
                s.push_str(": ");
                s.push_str(&sup.join(", "));
            }
            s.push('\n');
            for (n, t) in &c.fields {
                s.push_str(&format!("---@field {n} {}\n", self.render(t)));
            }
            s.push('\n');
        }
        for (i, e) in self.enums.iter().enumerate() {
            s.push_str(&format!("---@enum {}E{i}\nlocal E{i} = {{ ", if e.key { "(key) " } else { "" }));
            for k in 0..e.n.clamp(1, 4) {
                if e.string_values {
                    s.push_str(&format!("K{k} = \"e{i}v{k}\", "));
                } else {
                    s.push_str(&format!("K{k} = {}, ", (i as i64) * 10 + k as i64));
                }
            }
            s.push_str("}\n\n");
        }
        for (i, a) in self.aliases.iter().enumerate() {
            match a {
                AliasDecl::Plain(t) => {
                    // an alias may only mention earlier aliases
                    let t = self.restrict_alias_refs(t, i);
                    s.push_str(&format!("---@alias A{i} {}\n\n", self.render(&t)));
                }
                AliasDecl::Lines(ts) => {
                    s.push_str(&format!("---@alias A{i}\n"));
                    for t in ts {
                        s.push_str(&format!("---| {}\n", self.render(t)));
                    }
                    s.push('\n');
                }
            }
        }
        s
    }

    /// rewrite alias references inside alias #i so that they point to earlier aliases only (or to `string` for alias 0)
    fn restrict_alias_refs(&self, t: &Ty, i: usize) -> Ty {
        map_ty(t, &|x| match x {
            Ty::Alias(r) => {
                if i == 0 {
                    Some(Ty::Prim(0))
                } else {
                    // absolute index j < i, expressed so that alias_name() maps it back to j
                    Some(Ty::Alias((*r as usize % i) as u8))
                }
            }
            _ => None,
        })
    }

    /// annotation text of a type
    pub fn render(&self, t: &Ty) -> String {
        let mut s = String::new();
        self.write(t, &mut s, true);
        s
    }

    fn atomic(t: &Ty) -> bool {
        !matches!(t, Ty::Union(_) | Ty::Opt(_) | Ty::Fun { .. })
    }

    fn write_atom(&self, t: &Ty, s: &mut String) {
        if Self::atomic(t) {
            self.write(t, s, false);
        } else {
            s.push('(');
            self.write(t, s, true);
            s.push(')');
        }
    }

    /// `top`: a function type may be written without parentheses here
    fn write(&self, t: &Ty, s: &mut String, top: bool) {
        match t {
            Ty::Prim(i) => s.push_str(PRIMS[*i as usize % PRIMS.len()]),
            Ty::Str(v, single) => write_string_literal(v, *single, s),
            Ty::Int(text) => s.push_str(text),
            Ty::Bool(b) => s.push_str(if *b { "true" } else { "false" }),
            Ty::Union(ms) => {
                if ms.is_empty() {
                    s.push_str("nil");
                }
                for (i, m) in ms.iter().enumerate() {
                    if i > 0 {
                        s.push('|');
                    }
                    self.write_atom(m, s);
                }
            }
            Ty::Opt(x) => {
                self.write_atom(x, s);
                s.push('?');
            }
            Ty::Array(x) => {
                // `-1[]` is parsed as -(1[]): a negative literal element needs parentheses
                if matches!(&**x, Ty::Int(t) if t.starts_with('-')) {
                    s.push('(');
                    self.write(x, s, true);
                    s.push(')');
                } else {
                    self.write_atom(x, s);
                }
                s.push_str("[]");
            }
            Ty::Tuple(xs) => {
                s.push('[');
                for (i, x) in xs.iter().enumerate() {
                    if i > 0 {
                        s.push_str(", ");
                    }
                    self.write(x, s, false);
                }
                s.push(']');
            }
            Ty::Map(k, v) => {
                s.push_str("table<");
                self.write(k, s, false);
                s.push_str(", ");
                self.write(v, s, false);
                s.push('>');
            }
            Ty::Record(fs) => {
                s.push_str("{ ");
                for (i, f) in fs.iter().enumerate() {
                    if i > 0 {
                        s.push_str(", ");
                    }
                    match &f.key {
                        Key::Name(n) => s.push_str(n),
                        Key::Int(n) => s.push_str(&format!("[{n}]")),
                        Key::Str(v) => {
                            s.push('[');
                            write_string_literal(v, false, s);
                            s.push(']');
                        }
                        Key::Ty(k) => {
                            s.push('[');
                            self.write(k, s, false);
                            s.push(']');
                        }
                    }
                    if f.optional && !matches!(f.key, Key::Ty(_)) {
                        s.push('?');
                    }
                    s.push_str(": ");
                    self.write(&f.ty, s, false);
                }
                s.push_str(" }");
            }
            Ty::Fun { is_async, params, vararg, rets } => {
                if !top {
                    s.push('(');
                }
                if *is_async {
                    s.push_str("async ");
                }
                s.push_str("fun(");
                let mut first = true;
                for p in params {
                    if !first {
                        s.push_str(", ");
                    }
                    first = false;
                    s.push_str(&p.name);
                    if p.optional {
                        s.push('?');
                    }
                    s.push_str(": ");
                    self.write(&p.ty, s, false);
                }
                if let Some(v) = vararg {
                    if !first {
                        s.push_str(", ");
                    }
                    s.push_str("...: ");
                    self.write(v, s, false);
                }
                s.push(')');
                if !rets.is_empty() {
                    s.push_str(": ");
                    let mut list = String::new();
                    for (i, r) in rets.iter().enumerate() {
                        if i > 0 {
                            list.push_str(", ");
                        }
                        self.write(r, &mut list, false);
                    }
                    // a return list starting with `(` is taken as the parenthesized LuaLS form `(A, B)`
                    if list.starts_with('(') {
                        s.push('(');
                        s.push_str(&list);
                        s.push(')');
                    } else {
                        s.push_str(&list);
                    }
                }
                if !top {
                    s.push(')');
                }
            }
            Ty::Generic(g, args) => {
                s.push_str(&self.generic_name(*g));
                s.push('<');
                let n = self.generic_arity(*g);
                for i in 0..n {
                    if i > 0 {
                        s.push_str(", ");
                    }
                    match args.get(i) {
                        Some(a) => self.write(a, s, false),
                        None => s.push_str("string"),
                    }
                }
                s.push('>');
            }
            Ty::Class(i) => s.push_str(&self.class_name(*i)),
            Ty::Alias(i) => s.push_str(&self.alias_name(*i)),
            Ty::Enum(i) => s.push_str(&self.enum_name(*i)),
            Ty::Tpl(n) => s.push_str(n),
        }
    }
}

/// apply `f` bottom-up; `f` returns a replacement for a node or None to keep it (children already mapped)
pub fn map_ty(t: &Ty, f: &dyn Fn(&Ty) -> Option<Ty>) -> Ty {
    let mapped = match t {
        Ty::Union(ms) => Ty::Union(ms.iter().map(|m| map_ty(m, f)).collect()),
        Ty::Opt(x) => Ty::Opt(Box::new(map_ty(x, f))),
        Ty::Array(x) => Ty::Array(Box::new(map_ty(x, f))),
        Ty::Tuple(xs) => Ty::Tuple(xs.iter().map(|m| map_ty(m, f)).collect()),
        Ty::Map(k, v) => Ty::Map(Box::new(map_ty(k, f)), Box::new(map_ty(v, f))),
        Ty::Record(fs) => Ty::Record(
            fs.iter()
                .map(|fd| Field {
                    key: match &fd.key {
                        Key::Ty(k) => Key::Ty(Box::new(map_ty(k, f))),
                        k => k.clone(),
                    },
                    optional: fd.optional,
                    ty: map_ty(&fd.ty, f),
                })
                .collect(),
        ),
        Ty::Fun { is_async, params, vararg, rets } => Ty::Fun {
            is_async: *is_async,
            params: params.iter().map(|p| Param { name: p.name.clone(), optional: p.optional, ty: map_ty(&p.ty, f) }).collect(),
            vararg: vararg.as_ref().map(|v| Box::new(map_ty(v, f))),
            rets: rets.iter().map(|m| map_ty(m, f)).collect(),
        },
        Ty::Generic(g, args) => Ty::Generic(*g, args.iter().map(|m| map_ty(m, f)).collect()),
        other => other.clone(),
    };
    f(&mapped).unwrap_or(mapped)
}

/// direct children of a node
pub fn children(t: &Ty) -> Vec<&Ty> {
    match t {
        Ty::Union(ms) | Ty::Tuple(ms) => ms.iter().collect(),
        Ty::Opt(x) | Ty::Array(x) => vec![x],
        Ty::Map(k, v) => vec![k, v],
        Ty::Record(fs) => {
            let mut out = vec![];
            for f in fs {
                if let Key::Ty(k) = &f.key {
                    out.push(&**k);
                }
                out.push(&f.ty);
            }
            out
        }
        Ty::Fun { params, vararg, rets, .. } => {
            let mut out: Vec<&Ty> = params.iter().map(|p| &p.ty).collect();
            if let Some(v) = vararg {
                out.push(v);
            }
            out.extend(rets.iter());
            out
        }
        Ty::Generic(_, args) => args.iter().collect(),
        _ => vec![],
    }
}

pub fn depth(t: &Ty) -> usize {
    1 + children(t).into_iter().map(depth).max().unwrap_or(0)
}

pub fn any_node(t: &Ty, p: &dyn Fn(&Ty) -> bool) -> bool {
    p(t) || children(t).into_iter().any(|c| any_node(c, p))
}

pub fn kind(t: &Ty) -> &'static str {
    match t {
        Ty::Prim(_) => "prim",
        Ty::Str(..) => "str",
        Ty::Int(_) => "int",
        Ty::Bool(_) => "bool",
        Ty::Union(_) => "union",
        Ty::Opt(_) => "opt",
        Ty::Array(_) => "array",
        Ty::Tuple(_) => "tuple",
        Ty::Map(..) => "map",
        Ty::Record(_) => "record",
        Ty::Fun { .. } => "fun",
        Ty::Generic(..) => "generic",
        Ty::Class(_) => "class",
        Ty::Alias(_) => "alias",
        Ty::Enum(_) => "enum",
        Ty::Tpl(_) => "tpl",
    }
}

/// constructor skeleton down to `d` levels, e.g. `array(opt(class))` – used for failure signatures
pub fn skeleton(t: &Ty, d: usize) -> String {
    let cs = children(t);
    let head = match t {
        Ty::Prim(i) => PRIMS[*i as usize % PRIMS.len()],
        _ => kind(t),
    };
    if cs.is_empty() || d == 0 {
        return head.to_string();
    }
    let mut inner: Vec<String> = cs.into_iter().map(|c| skeleton(c, d - 1)).collect();
    if matches!(t, Ty::Union(_) | Ty::Record(_)) {
        inner.sort();
        inner.dedup();
    }
    format!("{head}({})", inner.join(","))
}

/// source text of a string literal denoting exactly `v` (escapes as the Lua reference manual defines them)
pub fn write_string_literal(v: &str, single: bool, s: &mut String) {
    let q = if single { '\'' } else { '"' };
    s.push(q);
    for ch in v.chars() {
        match ch {
            '\\' => s.push_str("\\\\"),
            '\n' => s.push_str("\\n"),
            '\r' => s.push_str("\\r"),
            '\t' => s.push_str("\\t"),
            c if c == q => {
                s.push('\\');
                s.push(c);
            }
            c if (c as u32) < 0x20 || c as u32 == 0x7f => s.push_str(&format!("\\x{:02X}", c as u32)),
            c if (0x80..0xA0).contains(&(c as u32)) => s.push_str(&format!("\\u{{{:X}}}", c as u32)),
            c => s.push(c),
        }
    }
    s.push(q);
}

// ------------------------------------------------------------------------------------------------
// strategies

/// which constructs a generated type may use, and how wide it may be at each nesting depth
#[derive(Clone, Copy, Debug)]
pub struct Profile {
    pub funs: bool,
    pub tuples: bool,
    pub generics: bool,
    /// include `unknown` among the primitive leaves
    pub unknown: bool,
    /// string-keyed (`["a b"]`) and type-keyed (`[string]`) record fields
    pub odd_keys: bool,
    /// arity limits of the type renderer per nesting depth (C17): unions <= 6/4/2/2 and records <= 8/4/2 below the root,
    /// no records / table<K,V> below depth 3
    pub render_limits: bool,
    pub max_depth: u32,
    /// widest union at the root
    pub root_union: usize,
}

impl Profile {
    pub fn full() -> Profile {
        Profile { funs: true, tuples: true, generics: true, unknown: true, odd_keys: true, render_limits: false, max_depth: 4, root_union: 6 }
    }
    /// the sub-grammar whose display syntax is annotation syntax (C17)
    pub fn renderable() -> Profile {
        Profile { funs: false, tuples: false, generics: false, unknown: false, odd_keys: true, render_limits: true, max_depth: 7, root_union: 40 }
    }
}

const STR_FRAGS: &[&str] = &[
    "a", "b", "x", "foo", "bar", "lit", " ", "  ", "\"", "'", "\\", "\n", "\t", "\r", "\u{1b}", "\u{1b}1", "\u{1b}23", "0", "7", "\u{1}", "\u{7f}", "\u{85}", "\u{a0}",
    "é", "名", "😀", "|", "?", "[]", "-- ", ",", "#", "@", "`", "(", ")", "<", ">", "{", "}", ":", "...", "nil", "string", "\\n", "\\27",
];

pub fn str_value() -> impl Strategy<Value = String> {
    prop_oneof![
        4 => proptest::collection::vec(0..6usize, 1..3).prop_map(|ix| ix.into_iter().map(|i| STR_FRAGS[i]).collect::<String>()),
        3 => proptest::collection::vec(0..STR_FRAGS.len(), 0..4).prop_map(|ix| ix.into_iter().map(|i| STR_FRAGS[i]).collect::<String>()),
    ]
}

// (hexadecimal literals are not part of the annotation grammar: the doc lexer reads `0x10` as `0` followed by a name)
const INT_TEXTS: &[&str] = &[
    "0", "1", "2", "3", "10", "42", "255", "-1", "-2", "-42", "1000000", "9223372036854775807", "-9223372036854775807", "9223372036854775808",
    "-9223372036854775808", "00", "007", "123456789012", "-0", "4294967296", "-2147483648",
];

pub fn int_text() -> impl Strategy<Value = String> {
    prop_oneof![
        3 => (0..6usize).prop_map(|i| INT_TEXTS[i].to_string()),
        2 => (0..INT_TEXTS.len()).prop_map(|i| INT_TEXTS[i].to_string()),
        1 => (-1000i64..1000).prop_map(|i| i.to_string()),
    ]
}

pub fn leaf(p: Profile) -> BoxedStrategy<Ty> {
    let nprim = if p.unknown { PRIMS.len() } else { PRIMS.len() - 1 } as u8;
    prop_oneof![
        5 => (0u8..4).prop_map(Ty::Prim),
        2 => (0u8..nprim).prop_map(Ty::Prim),
        3 => (str_value(), any::<bool>()).prop_map(|(v, q)| Ty::Str(v, q)),
        3 => int_text().prop_map(Ty::Int),
        1 => any::<bool>().prop_map(Ty::Bool),
        4 => (0u8..8).prop_map(Ty::Class),
        2 => (0u8..8).prop_map(Ty::Alias),
        2 => (0u8..8).prop_map(Ty::Enum),
    ]
    .boxed()
}

const FIELD_NAMES: &[&str] = &["a", "b", "c", "x", "y", "name", "id", "value"];

fn key_strategy(p: Profile) -> BoxedStrategy<Key> {
    if p.odd_keys {
        prop_oneof![
            6 => (0..FIELD_NAMES.len()).prop_map(|i| Key::Name(FIELD_NAMES[i].to_string())),
            2 => (1i64..4).prop_map(Key::Int),
            1 => str_value().prop_map(Key::Str),
            1 => prop_oneof![Just(Ty::Prim(0)), Just(Ty::Prim(1))].prop_map(|t| Key::Ty(Box::new(t))),
        ]
        .boxed()
    } else {
        prop_oneof![
            6 => (0..FIELD_NAMES.len()).prop_map(|i| Key::Name(FIELD_NAMES[i].to_string())),
            2 => (1i64..4).prop_map(Key::Int),
        ]
        .boxed()
    }
}

fn dedup_fields(fs: Vec<Field>) -> Vec<Field> {
    let mut out: Vec<Field> = vec![];
    for f in fs {
        if !out.iter().any(|g| g.key == f.key) {
            out.push(f);
        }
    }
    out
}

/// (max union members, max record fields, records/maps allowed) for a node at nesting depth `d`
fn limits(p: Profile, d: u32) -> (usize, usize, bool) {
    if !p.render_limits {
        return (if d == 0 { p.root_union } else { 4 }, 4, true);
    }
    match d {
        0 => (p.root_union, 8, true),
        1 => (6, 8, true),
        2 => (4, 4, true),
        3 => (2, 2, true),
        _ => (2, 0, false),
    }
}

/// a type whose root sits at nesting depth `d`
pub fn ty_at(p: Profile, d: u32) -> BoxedStrategy<Ty> {
    let lf = leaf(p);
    if d >= p.max_depth {
        return lf;
    }
    let child = ty_at(p, d + 1);
    let (umax, rmax, tables) = limits(p, d);
    let mut alts: Vec<(u32, BoxedStrategy<Ty>)> = vec![];
    alts.push((if d == 0 { 2 } else { 4 + 7 * d }, lf));
    let usual = if d == 0 { umax.clamp(2, 5) } else { umax.max(2) };
    alts.push((4, proptest::collection::vec(child.clone(), 2..=usual).prop_map(Ty::Union).boxed()));
    if d == 0 && umax > 6 {
        // an occasional wide union of distinct literals at the root
        alts.push((1, proptest::collection::vec(child.clone(), 6..=umax).prop_map(Ty::Union).boxed()));
    }
    alts.push((3, child.clone().prop_map(|x| Ty::Opt(Box::new(x))).boxed()));
    alts.push((4, child.clone().prop_map(|x| Ty::Array(Box::new(x))).boxed()));
    if tables {
        alts.push((2, (child.clone(), child.clone()).prop_map(|(k, v)| Ty::Map(Box::new(k), Box::new(v))).boxed()));
        if rmax > 0 {
            let field = (key_strategy(p), any::<bool>(), child.clone()).prop_map(|(key, optional, ty)| Field { key, optional, ty });
            alts.push((3, proptest::collection::vec(field, 1..=rmax.min(4)).prop_map(|fs| Ty::Record(dedup_fields(fs))).boxed()));
        }
    }
    if p.tuples {
        alts.push((2, proptest::collection::vec(child.clone(), 1..4).prop_map(Ty::Tuple).boxed()));
    }
    if p.generics {
        alts.push((2, (0u8..4, proptest::collection::vec(child.clone(), 2)).prop_map(|(g, a)| Ty::Generic(g, a)).boxed()));
    }
    if p.funs {
        let param = (0..FIELD_NAMES.len(), any::<bool>(), child.clone()).prop_map(|(i, o, ty)| Param { name: FIELD_NAMES[i].to_string(), optional: o, ty });
        alts.push((
            2,
            (proptest::bool::weighted(0.1), proptest::collection::vec(param, 0..3), proptest::option::weighted(0.2, child.clone()), proptest::collection::vec(child.clone(), 0..3))
                .prop_map(|(a, ps, v, rets)| {
                    let mut names: Vec<String> = vec![];
                    let mut params = vec![];
                    let mut seen_optional = false;
                    for mut p in ps {
                        if names.contains(&p.name) {
                            continue;
                        }
                        // optional parameters only at the tail
                        seen_optional |= p.optional;
                        p.optional = seen_optional;
                        names.push(p.name.clone());
                        params.push(p);
                    }
                    Ty::Fun { is_async: a, params, vararg: v.map(Box::new), rets }
                })
                .boxed(),
        ));
    }
    proptest::strategy::Union::new_weighted(alts).boxed()
}

pub fn ty(p: Profile) -> BoxedStrategy<Ty> {
    ty_at(p, 0)
}

/// shallow types for class fields / alias bodies / generic args in the world (no alias references unless `aliases`)
fn world_ty(aliases: bool) -> BoxedStrategy<Ty> {
    let base = prop_oneof![
        5 => (0u8..4).prop_map(Ty::Prim),
        2 => (str_value(), any::<bool>()).prop_map(|(v, q)| Ty::Str(v, q)),
        2 => int_text().prop_map(Ty::Int),
        3 => (0u8..8).prop_map(Ty::Class),
        1 => (0u8..8).prop_map(Ty::Enum),
    ];
    let base: BoxedStrategy<Ty> = if aliases { prop_oneof![6 => base, 1 => (0u8..8).prop_map(Ty::Alias)].boxed() } else { base.boxed() };
    prop_oneof![
        3 => base.clone(),
        2 => proptest::collection::vec(base.clone(), 2..4).prop_map(Ty::Union),
        1 => base.clone().prop_map(|x| Ty::Opt(Box::new(x))),
        1 => base.clone().prop_map(|x| Ty::Array(Box::new(x))),
        1 => (base.clone(), base.clone()).prop_map(|(k, v)| Ty::Map(Box::new(k), Box::new(v))),
    ]
    .boxed()
}

pub fn world() -> BoxedStrategy<World> {
    let field = (0..FIELD_NAMES.len(), world_ty(false)).prop_map(|(i, t)| (FIELD_NAMES[i].to_string(), t));
    let fields = proptest::collection::vec(field, 0..3).prop_map(|fs| {
        let mut out: Vec<(String, Ty)> = vec![];
        for f in fs {
            if !out.iter().any(|g| g.0 == f.0) {
                out.push(f);
            }
        }
        out
    });
    let class = (
        proptest::collection::vec(any::<u8>(), 0..3),
        proptest::option::weighted(0.15, (0u8..4, proptest::collection::vec(world_ty(false), 2))),
        fields.clone(),
        proptest::bool::weighted(0.15),
    )
        .prop_map(|(supers, generic_super, fields, dotted)| ClassDecl { supers, generic_super, fields, dotted });
    let gfield = (0..FIELD_NAMES.len(), prop_oneof![Just(0u8), Just(1u8), Just(2u8)]).prop_map(|(i, k)| (FIELD_NAMES[i].to_string(), k));
    let generic = (1u8..3, proptest::collection::vec(gfield, 0..3)).prop_map(|(nparams, fs)| {
        let mut fields: Vec<(String, Ty)> = vec![];
        for (n, k) in fs {
            if fields.iter().any(|g| g.0 == n) {
                continue;
            }
            let tpl = |name: &str| Ty::Tpl(name.to_string());
            let t = if nparams == 1 {
                match k {
                    0 => tpl("T"),
                    1 => Ty::Array(Box::new(tpl("T"))),
                    _ => Ty::Prim(1),
                }
            } else {
                match k {
                    0 => tpl("K"),
                    1 => tpl("V"),
                    _ => Ty::Map(Box::new(tpl("K")), Box::new(tpl("V"))),
                }
            };
            fields.push((n, t));
        }
        GenericDecl { nparams, fields }
    });
    let lit = prop_oneof![(str_value(), any::<bool>()).prop_map(|(v, q)| Ty::Str(v, q)), int_text().prop_map(Ty::Int)];
    let alias = prop_oneof![
        3 => world_ty(true).prop_map(AliasDecl::Plain),
        1 => proptest::collection::vec(lit, 1..4).prop_map(AliasDecl::Lines),
    ];
    let en = (any::<bool>(), any::<bool>(), 1u8..4).prop_map(|(key, string_values, n)| EnumDecl { key, string_values, n });
    (
        proptest::collection::vec(class, 1..7),
        proptest::collection::vec(generic, 1..3),
        proptest::collection::vec(alias, 1..4),
        proptest::collection::vec(en, 1..3),
    )
        .prop_map(|(classes, generics, aliases, enums)| World { classes, generics, aliases, enums })
        .boxed()
}
