//! Narrowing fragment (C15) and its loop extension (C41).
//!
//! AST of small Lua programs over 1–4 tracked locals `a b c d`, a proptest strategy, a renderer and a
//! reference interpreter.  The interpreter only tracks what the fragment can observe: the Lua type and
//! the truthiness of every value, plus *provenance* (where the value was assigned), which the checks use
//! to compute narrow failure signatures.
//!
//! Everything the VM and the interpreter must agree on is decided by `normalize`, which maps any AST
//! (including shrunk / hand-edited ones) to a well-formed one; `render` and `interpret` only accept
//! normalized programs.

use proptest::prelude::*;
use serde::{Deserialize, Serialize};
use std::collections::HashMap;

pub const VAR_NAMES: [&str; 4] = ["a", "b", "c", "d"];
pub const TYPE_NAMES: [&str; 6] = ["nil", "boolean", "number", "string", "table", "function"];
pub const N_OPAQUE: u8 = 5;

#[derive(Clone, Copy, Debug, PartialEq, Eq, Serialize, Deserialize)]
pub enum Lit {
    Nil,
    True,
    False,
    Int(u8),
    Float(u8),
    Str(u8),
    Table(u8),
    Func,
}

impl Lit {
    pub fn text(self) -> &'static str {
        match self {
            Lit::Nil => "nil",
            Lit::True => "true",
            Lit::False => "false",
            Lit::Int(k) => ["0", "1", "2", "42"][(k % 4) as usize],
            Lit::Float(k) => ["1.5", "0.0"][(k % 2) as usize],
            Lit::Str(k) => ["\"s\"", "\"\"", "'x y'"][(k % 3) as usize],
            Lit::Table(k) => ["{}", "{ 1, 2 }", "{ k = 1 }"][(k % 3) as usize],
            Lit::Func => "function() end",
        }
    }
    /// index into TYPE_NAMES
    pub fn ty(self) -> u8 {
        match self {
            Lit::Nil => 0,
            Lit::True | Lit::False => 1,
            Lit::Int(_) | Lit::Float(_) => 2,
            Lit::Str(_) => 3,
            Lit::Table(_) => 4,
            Lit::Func => 5,
        }
    }
    /// Lua truthiness: only nil and false are falsy (0, 0.0 and "" are truthy)
    pub fn truthy(self) -> bool {
        !matches!(self, Lit::Nil | Lit::False)
    }
}

#[derive(Clone, Debug, PartialEq, Eq, Serialize, Deserialize)]
pub enum Cond {
    /// `__c<k+1>`: a global boolean the analyzer cannot evaluate, fixed per run by the VM
    Opaque(u8),
    /// `v`
    Truthy(u8),
    /// `v == nil` / `v ~= nil` / `nil == v`
    NilCmp { var: u8, ne: bool, flip: bool },
    /// `type(v) == "T"` / `~=` / `"T" == type(v)`
    TypeCmp { var: u8, ty: u8, ne: bool, flip: bool },
    Not(Box<Cond>),
    And(Box<Cond>, Box<Cond>),
    Or(Box<Cond>, Box<Cond>),
    Paren(Box<Cond>),
    /// the literal `true` (loop headers only: `while true do … break … end`)
    True,
}

#[derive(Clone, Copy, Debug, PartialEq, Eq, Serialize, Deserialize)]
pub enum Rhs {
    Lit(Lit),
    Var(u8),
}

/// How a `while` / `repeat` loop is kept finite.
#[derive(Clone, Copy, Debug, PartialEq, Eq, Serialize, Deserialize)]
pub enum Bound {
    /// no counter: the loop must end by its own condition (or the run is dropped at the step limit)
    Natural,
    /// body starts with `__n = __n + 1; if __n > k then break end`
    BreakAfter(u8),
    /// `while (C) and __n < k do __n = __n + 1 …` / `until (C) or __n >= k`
    CondLimit(u8),
}

#[derive(Clone, Copy, Debug, PartialEq, Eq, Hash, PartialOrd, Ord, Serialize, Deserialize)]
pub enum LoopKind {
    While,
    Repeat,
    ForNum,
    ForIn,
    /// `while true do`: the body is entered unconditionally and only `break` leaves the loop
    WhileTrue,
}

/// the header is the literal `true` only when no counter is and-ed to the condition
pub fn while_kind(c: &Cond, bound: Bound) -> LoopKind {
    if matches!(c, Cond::True) && !matches!(bound, Bound::CondLimit(_)) { LoopKind::WhileTrue } else { LoopKind::While }
}

impl LoopKind {
    pub fn name(self) -> &'static str {
        match self {
            LoopKind::While => "while",
            LoopKind::Repeat => "repeat",
            LoopKind::ForNum => "fornum",
            LoopKind::ForIn => "forin",
            LoopKind::WhileTrue => "while-true",
        }
    }
}

#[derive(Clone, Debug, PartialEq, Eq, Serialize, Deserialize)]
pub enum Stmt {
    /// `v = rhs`
    Assign(u8, Rhs),
    /// `local v = rhs` / `local v` – a shadowing declaration in the current block
    Local(u8, Option<Rhs>),
    /// `__probe(<id>, v)`; ids are assigned in textual order by `render`
    Probe(u8),
    If(Vec<(Cond, Vec<Stmt>)>, Option<Vec<Stmt>>),
    Do(Vec<Stmt>),
    /// a closure that is called at once; style 0: `;(function() … end)()`, 1: `local function __f() … end __f()`
    Closure(u8, Vec<Stmt>),
    /// `return` (rendered `do return end` when not last in its block)
    Return,
    While(Cond, Bound, Vec<Stmt>),
    Repeat(Vec<Stmt>, Cond, Bound),
    /// numeric for; (kind, opaque index)
    ForNum(u8, u8, Vec<Stmt>),
    /// generic for; (kind, opaque index)
    ForIn(u8, u8, Vec<Stmt>),
    Break,
}

#[derive(Clone, Debug, PartialEq, Eq, Serialize, Deserialize)]
pub struct Prog {
    /// initial values of the tracked locals (1..=4)
    pub inits: Vec<Lit>,
    pub body: Vec<Stmt>,
}

pub const FORNUM_KINDS: u8 = 5;
pub const FORIN_KINDS: u8 = 6;

/// header text and iteration count of a numeric for
fn fornum_header(kind: u8, op: u8, env: u8) -> (String, u32) {
    let c = env >> op & 1 == 1;
    match kind % FORNUM_KINDS {
        0 => ("1, 2".into(), 2),
        1 => ("1, 0".into(), 0),
        2 => (format!("1, (__c{} and 2 or 0)", op + 1), if c { 2 } else { 0 }),
        3 => ("2, 1, -1".into(), 2),
        _ => (format!("1, 3, (__c{} and 1 or -1)", op + 1), if c { 3 } else { 0 }),
    }
}

fn forin_header(kind: u8, op: u8, env: u8) -> (String, u32) {
    let c = env >> op & 1 == 1;
    match kind % FORIN_KINDS {
        0 => ("__k, __e in ipairs({ 10, 20 })".into(), 2),
        1 => ("__k, __e in ipairs({})".into(), 0),
        2 => ("__k, __e in pairs({ x = 1 })".into(), 1),
        3 => ("__k in pairs({})".into(), 0),
        4 => ("__k, __e in next, { 1 }".into(), 1),
        _ => (format!("__k, __e in ipairs(__c{} and {{ 1 }} or {{}})", op + 1), if c { 1 } else { 0 }),
    }
}

// ------------------------------------------------------------------------------------------------
// normalisation

struct Norm {
    nvars: u8,
    /// loop depth inside the current function
    loop_depth: u32,
    /// Some(scopes) inside a closure: variables declared by `local` since the closure started, per block
    closure_scopes: Option<Vec<Vec<u8>>>,
}

impl Norm {
    fn var(&self, v: u8) -> u8 {
        v % self.nvars
    }
    fn cond(&self, c: &Cond) -> Cond {
        match c {
            Cond::Opaque(k) => Cond::Opaque(k % N_OPAQUE),
            Cond::True => Cond::True,
            Cond::Truthy(v) => Cond::Truthy(self.var(*v)),
            Cond::NilCmp { var, ne, flip } => Cond::NilCmp { var: self.var(*var), ne: *ne, flip: *flip },
            Cond::TypeCmp { var, ty, ne, flip } => Cond::TypeCmp { var: self.var(*var), ty: ty % 6, ne: *ne, flip: *flip },
            Cond::Not(x) => Cond::Not(Box::new(self.cond(x))),
            Cond::And(x, y) => Cond::And(Box::new(self.cond(x)), Box::new(self.cond(y))),
            Cond::Or(x, y) => Cond::Or(Box::new(self.cond(x)), Box::new(self.cond(y))),
            Cond::Paren(x) => Cond::Paren(Box::new(self.cond(x))),
        }
    }
    fn rhs(&self, r: &Rhs) -> Rhs {
        match r {
            Rhs::Lit(l) => Rhs::Lit(*l),
            Rhs::Var(v) => Rhs::Var(self.var(*v)),
        }
    }
    fn declared_in_closure(&self, v: u8) -> bool {
        match &self.closure_scopes {
            None => true,
            Some(scopes) => scopes.iter().any(|s| s.contains(&v)),
        }
    }
    fn declare(&mut self, v: u8) {
        if let Some(scopes) = &mut self.closure_scopes {
            if let Some(last) = scopes.last_mut() {
                last.push(v);
            }
        }
    }
    fn push(&mut self) {
        if let Some(s) = &mut self.closure_scopes {
            s.push(vec![]);
        }
    }
    fn pop(&mut self) {
        if let Some(s) = &mut self.closure_scopes {
            s.pop();
        }
    }
    /// every variable is probed right after every loop, so that a type lost at the loop exit is seen
    /// there first (and later mismatches of the same variable can be recognised as its consequences)
    fn probes_after_loop(&self, out: &mut Vec<Stmt>) {
        for v in 0..self.nvars {
            out.push(Stmt::Probe(v));
        }
    }
    fn block(&mut self, b: &[Stmt]) -> Vec<Stmt> {
        self.push();
        let out = self.block_open(b);
        self.pop();
        out
    }
    /// block whose scope stays open (repeat … until)
    fn block_open(&mut self, b: &[Stmt]) -> Vec<Stmt> {
        let mut out = vec![];
        for s in b {
            match s {
                Stmt::Assign(v, r) => {
                    let v = self.var(*v);
                    let r = self.rhs(r);
                    if self.declared_in_closure(v) {
                        out.push(Stmt::Assign(v, r));
                    } else {
                        // a closure never assigns an outer local: the fragment has no way to tell the
                        // analyzer about it (same limitation as every flow-typed language)
                        out.push(Stmt::Local(v, Some(r)));
                        self.declare(v);
                    }
                }
                Stmt::Local(v, r) => {
                    let v = self.var(*v);
                    out.push(Stmt::Local(v, r.as_ref().map(|r| self.rhs(r))));
                    self.declare(v);
                }
                Stmt::Probe(v) => out.push(Stmt::Probe(self.var(*v))),
                Stmt::If(arms, els) => {
                    let arms: Vec<(Cond, Vec<Stmt>)> = arms.iter().take(4).map(|(c, b)| (self.cond(c), self.block(b))).collect();
                    let els = els.as_ref().map(|b| self.block(b));
                    if arms.is_empty() {
                        if let Some(b) = els {
                            out.push(Stmt::Do(b));
                        }
                    } else {
                        out.push(Stmt::If(arms, els));
                    }
                }
                Stmt::Do(b) => out.push(Stmt::Do(self.block(b))),
                Stmt::Closure(style, b) => {
                    let saved_depth = std::mem::replace(&mut self.loop_depth, 0);
                    let saved_scopes = self.closure_scopes.replace(vec![]);
                    let body = self.block(b);
                    self.closure_scopes = saved_scopes;
                    self.loop_depth = saved_depth;
                    out.push(Stmt::Closure(style % 2, body));
                }
                Stmt::Return => out.push(Stmt::Return),
                Stmt::While(c, bound, b) => {
                    let c = self.cond(c);
                    self.loop_depth += 1;
                    let body = self.block(b);
                    self.loop_depth -= 1;
                    out.push(Stmt::While(c, norm_bound(*bound), body));
                    self.probes_after_loop(&mut out);
                }
                Stmt::Repeat(b, c, bound) => {
                    self.loop_depth += 1;
                    self.push();
                    let body = self.block_open(b);
                    // the condition sees the body's locals; it only reads, nothing to rewrite
                    let c = self.cond(c);
                    self.pop();
                    self.loop_depth -= 1;
                    out.push(Stmt::Repeat(body, c, norm_bound(*bound)));
                    self.probes_after_loop(&mut out);
                }
                Stmt::ForNum(k, op, b) => {
                    self.loop_depth += 1;
                    let body = self.block(b);
                    self.loop_depth -= 1;
                    out.push(Stmt::ForNum(k % FORNUM_KINDS, op % N_OPAQUE, body));
                    self.probes_after_loop(&mut out);
                }
                Stmt::ForIn(k, op, b) => {
                    self.loop_depth += 1;
                    let body = self.block(b);
                    self.loop_depth -= 1;
                    out.push(Stmt::ForIn(k % FORIN_KINDS, op % N_OPAQUE, body));
                    self.probes_after_loop(&mut out);
                }
                Stmt::Break => {
                    if self.loop_depth > 0 {
                        out.push(Stmt::Break);
                    }
                }
            }
        }
        out
    }
}

fn norm_bound(b: Bound) -> Bound {
    match b {
        Bound::Natural => Bound::Natural,
        Bound::BreakAfter(k) => Bound::BreakAfter(k % 4),
        Bound::CondLimit(k) => Bound::CondLimit(k % 4),
    }
}

pub fn normalize(p: &Prog) -> Prog {
    let mut inits: Vec<Lit> = p.inits.iter().copied().take(4).collect();
    if inits.is_empty() {
        inits.push(Lit::Nil);
    }
    let mut n = Norm { nvars: inits.len() as u8, loop_depth: 0, closure_scopes: None };
    let body = n.block(&p.body);
    Prog { inits, body }
}

// ------------------------------------------------------------------------------------------------
// rendering

pub fn cond_text(c: &Cond) -> String {
    match c {
        Cond::Opaque(k) => format!("__c{}", k + 1),
        Cond::True => "true".into(),
        Cond::Truthy(v) => VAR_NAMES[*v as usize].to_string(),
        Cond::NilCmp { var, ne, flip } => {
            let op = if *ne { "~=" } else { "==" };
            if *flip { format!("nil {} {}", op, VAR_NAMES[*var as usize]) } else { format!("{} {} nil", VAR_NAMES[*var as usize], op) }
        }
        Cond::TypeCmp { var, ty, ne, flip } => {
            let op = if *ne { "~=" } else { "==" };
            let t = TYPE_NAMES[*ty as usize];
            if *flip { format!("\"{}\" {} type({})", t, op, VAR_NAMES[*var as usize]) } else { format!("type({}) {} \"{}\"", VAR_NAMES[*var as usize], op, t) }
        }
        Cond::Not(x) => match **x {
            // `not not c` stacks the operators directly; the parenthesised spelling is Not(Paren(Not(c)))
            Cond::Opaque(_) | Cond::Truthy(_) | Cond::Paren(_) | Cond::Not(_) | Cond::True => format!("not {}", cond_text(x)),
            _ => format!("not ({})", cond_text(x)),
        },
        Cond::And(x, y) => format!("{} and {}", cond_operand(x), cond_operand(y)),
        Cond::Or(x, y) => format!("{} or {}", cond_operand(x), cond_operand(y)),
        Cond::Paren(x) => format!("({})", cond_text(x)),
    }
}

fn cond_operand(c: &Cond) -> String {
    match c {
        Cond::And(..) | Cond::Or(..) => format!("({})", cond_text(c)),
        _ => cond_text(c),
    }
}

/// variable-abstracted shape of a condition (`v` = the variable of interest, `w` = another one)
pub fn cond_skeleton(c: &Cond, of: u8) -> String {
    let n = |v: &u8| if *v == of { "v" } else { "w" };
    match c {
        Cond::Opaque(_) => "C".into(),
        Cond::True => "true".into(),
        Cond::Truthy(v) => n(v).into(),
        Cond::NilCmp { var, ne, .. } => format!("{}{}nil", n(var), if *ne { "~=" } else { "==" }),
        Cond::TypeCmp { var, ne, .. } => format!("type({}){}T", n(var), if *ne { "~=" } else { "==" }),
        Cond::Not(x) => format!("not({})", cond_skeleton(x, of)),
        Cond::And(x, y) => format!("({} and {})", cond_skeleton(x, of), cond_skeleton(y, of)),
        Cond::Or(x, y) => format!("({} or {})", cond_skeleton(x, of), cond_skeleton(y, of)),
        Cond::Paren(x) => cond_skeleton(x, of),
    }
}

pub fn cond_mentions(c: &Cond, v: u8) -> bool {
    match c {
        Cond::Opaque(_) | Cond::True => false,
        Cond::Truthy(x) => *x == v,
        Cond::NilCmp { var, .. } | Cond::TypeCmp { var, .. } => *var == v,
        Cond::Not(x) | Cond::Paren(x) => cond_mentions(x, v),
        Cond::And(x, y) | Cond::Or(x, y) => cond_mentions(x, v) || cond_mentions(y, v),
    }
}

pub fn cond_has_var(c: &Cond) -> bool {
    (0..4).any(|v| cond_mentions(c, v))
}

fn cond_opaques(c: &Cond, mask: &mut u8) {
    match c {
        Cond::Opaque(k) => *mask |= 1 << k,
        Cond::Not(x) | Cond::Paren(x) => cond_opaques(x, mask),
        Cond::And(x, y) | Cond::Or(x, y) => {
            cond_opaques(x, mask);
            cond_opaques(y, mask)
        }
        _ => {}
    }
}

fn block_opaques(b: &[Stmt], mask: &mut u8) {
    for s in b {
        match s {
            Stmt::If(arms, els) => {
                for (c, b) in arms {
                    cond_opaques(c, mask);
                    block_opaques(b, mask);
                }
                if let Some(b) = els {
                    block_opaques(b, mask);
                }
            }
            Stmt::Do(b) | Stmt::Closure(_, b) => block_opaques(b, mask),
            Stmt::While(c, _, b) | Stmt::Repeat(b, c, _) => {
                cond_opaques(c, mask);
                block_opaques(b, mask);
            }
            Stmt::ForNum(k, op, b) => {
                if matches!(k % FORNUM_KINDS, 2 | 4) {
                    *mask |= 1 << op;
                }
                block_opaques(b, mask);
            }
            Stmt::ForIn(k, op, b) => {
                if k % FORIN_KINDS == 5 {
                    *mask |= 1 << op;
                }
                block_opaques(b, mask);
            }
            _ => {}
        }
    }
}

/// bit mask of the opaque conditions a (normalized) program reads
pub fn opaques_used(p: &Prog) -> u8 {
    let mut m = 0;
    block_opaques(&p.body, &mut m);
    m
}

/// all assignments of the opaque booleans that matter for this program
pub fn envs(p: &Prog) -> Vec<u8> {
    let mask = opaques_used(p);
    let bits: Vec<u8> = (0..N_OPAQUE).filter(|k| mask >> k & 1 == 1).collect();
    (0u32..1 << bits.len())
        .map(|i| {
            let mut e = 0u8;
            for (j, b) in bits.iter().enumerate() {
                if i >> j & 1 == 1 {
                    e |= 1 << b;
                }
            }
            e
        })
        .collect()
}

pub struct Rendered {
    pub text: String,
    /// address of each `Stmt::Probe` in the normalized program → probe id (textual order, from 1)
    pub probe_ids: HashMap<usize, u32>,
    pub n_probes: u32,
    /// address of each `Assign` / `Local` statement → 0-based line of its rendering
    pub site_lines: HashMap<usize, u32>,
}

pub fn key(s: &Stmt) -> usize {
    s as *const Stmt as usize
}

struct Renderer {
    out: String,
    lines: u32,
    site_lines: HashMap<usize, u32>,
    ids: HashMap<usize, u32>,
    next_probe: u32,
    next_counter: u32,
    next_fn: u32,
}

impl Renderer {
    fn line(&mut self, ind: usize, s: &str) {
        for _ in 0..ind {
            self.out.push_str("  ");
        }
        self.out.push_str(s);
        self.out.push('\n');
        self.lines += 1;
    }
    fn rhs(r: &Rhs) -> String {
        match r {
            Rhs::Lit(l) => l.text().to_string(),
            Rhs::Var(v) => VAR_NAMES[*v as usize].to_string(),
        }
    }
    fn block(&mut self, b: &[Stmt], ind: usize) {
        let n = b.len();
        for (i, s) in b.iter().enumerate() {
            let last = i + 1 == n;
            if matches!(s, Stmt::Assign(..) | Stmt::Local(..)) {
                self.site_lines.insert(key(s), self.lines);
            }
            match s {
                Stmt::Assign(v, r) => self.line(ind, &format!("{} = {}", VAR_NAMES[*v as usize], Self::rhs(r))),
                Stmt::Local(v, Some(r)) => self.line(ind, &format!("local {} = {}", VAR_NAMES[*v as usize], Self::rhs(r))),
                Stmt::Local(v, None) => self.line(ind, &format!("local {}", VAR_NAMES[*v as usize])),
                Stmt::Probe(v) => {
                    self.next_probe += 1;
                    self.ids.insert(key(s), self.next_probe);
                    self.line(ind, &format!("__probe({}, {})", self.next_probe, VAR_NAMES[*v as usize]));
                }
                Stmt::If(arms, els) => {
                    for (k, (c, b)) in arms.iter().enumerate() {
                        let kw = if k == 0 { "if" } else { "elseif" };
                        self.line(ind, &format!("{} {} then", kw, cond_text(c)));
                        self.block(b, ind + 1);
                    }
                    if let Some(b) = els {
                        self.line(ind, "else");
                        self.block(b, ind + 1);
                    }
                    self.line(ind, "end");
                }
                Stmt::Do(b) => {
                    self.line(ind, "do");
                    self.block(b, ind + 1);
                    self.line(ind, "end");
                }
                Stmt::Closure(style, b) => {
                    if *style == 0 {
                        self.line(ind, ";(function()");
                        self.block(b, ind + 1);
                        self.line(ind, "end)()");
                    } else {
                        self.next_fn += 1;
                        let name = format!("__f{}", self.next_fn);
                        self.line(ind, &format!("local function {}()", name));
                        self.block(b, ind + 1);
                        self.line(ind, "end");
                        self.line(ind, &format!("{}()", name));
                    }
                }
                Stmt::Return => {
                    if last {
                        self.line(ind, "return");
                    } else {
                        self.line(ind, "do return end");
                    }
                }
                Stmt::While(c, bound, b) => {
                    let ctr = self.counter(ind, *bound);
                    match bound {
                        Bound::CondLimit(k) => {
                            self.line(ind, &format!("while ({}) and {} < {} do", cond_text(c), ctr, k));
                            self.line(ind + 1, &format!("{} = {} + 1", ctr, ctr));
                        }
                        Bound::BreakAfter(k) => {
                            self.line(ind, &format!("while {} do", cond_text(c)));
                            self.line(ind + 1, &format!("{} = {} + 1", ctr, ctr));
                            self.line(ind + 1, &format!("if {} > {} then break end", ctr, k));
                        }
                        Bound::Natural => self.line(ind, &format!("while {} do", cond_text(c))),
                    }
                    self.block(b, ind + 1);
                    self.line(ind, "end");
                }
                Stmt::Repeat(b, c, bound) => {
                    let ctr = self.counter(ind, *bound);
                    self.line(ind, "repeat");
                    match bound {
                        Bound::CondLimit(_) => self.line(ind + 1, &format!("{} = {} + 1", ctr, ctr)),
                        Bound::BreakAfter(k) => {
                            self.line(ind + 1, &format!("{} = {} + 1", ctr, ctr));
                            self.line(ind + 1, &format!("if {} > {} then break end", ctr, k));
                        }
                        Bound::Natural => {}
                    }
                    self.block(b, ind + 1);
                    match bound {
                        Bound::CondLimit(k) => self.line(ind, &format!("until ({}) or {} >= {}", cond_text(c), ctr, k)),
                        _ => self.line(ind, &format!("until {}", cond_text(c))),
                    }
                }
                Stmt::ForNum(k, op, b) => {
                    self.line(ind, &format!("for __i = {} do", fornum_header(*k, *op, 0).0));
                    self.block(b, ind + 1);
                    self.line(ind, "end");
                }
                Stmt::ForIn(k, op, b) => {
                    self.line(ind, &format!("for {} do", forin_header(*k, *op, 0).0));
                    self.block(b, ind + 1);
                    self.line(ind, "end");
                }
                Stmt::Break => {
                    if last {
                        self.line(ind, "break");
                    } else {
                        self.line(ind, "do break end");
                    }
                }
            }
        }
    }
    fn counter(&mut self, ind: usize, bound: Bound) -> String {
        if bound == Bound::Natural {
            return String::new();
        }
        self.next_counter += 1;
        let name = format!("__n{}", self.next_counter);
        self.line(ind, &format!("local {} = 0", name));
        name
    }
}

/// renders a *normalized* program
pub fn render(p: &Prog) -> Rendered {
    let mut r = Renderer { out: String::new(), lines: 0, site_lines: HashMap::new(), ids: HashMap::new(), next_probe: 0, next_counter: 0, next_fn: 0 };
    for (i, l) in p.inits.iter().enumerate() {
        r.line(0, &format!("local {} = {}", VAR_NAMES[i], l.text()));
    }
    r.block(&p.body, 0);
    Rendered { text: r.out, probe_ids: r.ids, n_probes: r.next_probe, site_lines: r.site_lines }
}

// ------------------------------------------------------------------------------------------------
// reference interpreter

#[derive(Clone, Copy, Debug, PartialEq, Eq)]
pub struct Origin {
    /// the loop (of the same function) the assignment is charged to, see `Interp::attributed_loop`;
    /// copies made outside a loop inherit it from the copied value
    pub in_loop: Option<LoopKind>,
    /// the value comes from an assignment statement (not from a `local` declaration)
    pub reassigned: bool,
    /// the value was copied from another variable (`x = y`, `local x = y`)
    pub copied: bool,
    pub copied_from: Option<u8>,
    /// address of the assigning statement in the normalized program (0 = initial declaration)
    pub site: usize,
    /// the assigning statement has (also) run while every enclosing loop was in its first iteration, i.e. on the
    /// straight pass through the loop bodies that an analysis without back edges walks
    pub first_pass: bool,
}

#[derive(Clone, Copy, Debug, PartialEq, Eq)]
pub struct Val {
    pub ty: u8,
    pub truthy: bool,
    pub origin: Origin,
}

/// lexical context of a probe
#[derive(Clone, Debug, Default)]
pub struct ProbeCtx {
    /// enclosing if-arms, outermost first: (condition, polarity the arm's entry implies)
    /// – for arm k of an if: every earlier arm's condition with polarity false, then arm k's with true
    pub guards: Vec<(Cond, bool)>,
    /// lexically inside some loop body (within the whole file)
    pub in_loop: bool,
    /// lexically inside a closure
    pub in_closure: bool,
    /// loops (kind, condition) that lexically precede the probe in an enclosing block
    pub loops_before: Vec<(LoopKind, Option<Cond>)>,
}

#[derive(Clone, Debug)]
pub struct Event {
    pub id: u32,
    pub var: u8,
    pub val: Val,
}

#[derive(Clone, Debug, Default)]
pub struct LoopStat {
    pub kind: Option<LoopKind>,
    /// executions of the loop statement that ran the body 0 times / ≥1 times (over all runs merged by the caller)
    pub zero: u32,
    pub some: u32,
    /// a body assignment gave a tracked variable a type it did not have when the loop was entered
    pub new_type: bool,
}

pub struct Run {
    pub events: Vec<Event>,
    pub diverged: bool,
}

enum Flow {
    Normal,
    Break,
    Return,
    Abort,
}

struct LoopFrame {
    key: usize,
    entry_types: [Option<u8>; 4],
}

pub struct Interp<'a> {
    env: u8,
    ids: &'a HashMap<usize, u32>,
    scopes: Vec<(u8, Val)>,
    events: Vec<Event>,
    steps: u32,
    limit: u32,
    /// lexical loop kinds of the current function
    loop_kinds: Vec<LoopKind>,
    /// iteration number (1-based) of every enclosing loop of the current function
    loop_iters: Vec<u32>,
    first_pass_sites: std::collections::HashSet<(usize, u8)>,
    frames: Vec<LoopFrame>,
    pub loop_stats: &'a mut HashMap<usize, LoopStat>,
    /// assignment site → bit mask of the runtime types it assigned (merged over runs by the caller)
    pub site_types: &'a mut HashMap<usize, u8>,
}

impl<'a> Interp<'a> {
    fn lookup(&self, v: u8) -> Val {
        self.scopes.iter().rev().find(|(n, _)| *n == v).map(|x| x.1).expect("normalized programs only read declared variables")
    }
    fn set(&mut self, v: u8, val: Val) {
        if let Some(slot) = self.scopes.iter_mut().rev().find(|(n, _)| *n == v) {
            slot.1 = val;
        }
    }
    /// The loop a body assignment is charged to: the innermost enclosing loop (same function) whose body
    /// may run zero times (while / numeric for / generic for).  A `repeat` body always runs and its exit
    /// path goes through the body's end, so it is transparent unless every enclosing loop is a `repeat` or `while true`.
    fn attributed_loop(&self) -> Option<LoopKind> {
        // `while true` is entered unconditionally too: like `repeat` it is transparent for this purpose
        // among loops that are all entered unconditionally, a `repeat` (whose `until` has no back edge) takes the charge
        self.loop_kinds
            .iter()
            .rev()
            .find(|k| !matches!(**k, LoopKind::Repeat | LoopKind::WhileTrue))
            .or(self.loop_kinds.iter().find(|k| **k == LoopKind::Repeat))
            .or(self.loop_kinds.first())
            .copied()
    }
    /// has statement `site` produced a value of type `ty` while every enclosing loop was in its first iteration?
    fn first_pass(&mut self, site: usize, ty: u8) -> bool {
        if self.loop_iters.iter().all(|i| *i <= 1) {
            self.first_pass_sites.insert((site, ty));
        }
        self.first_pass_sites.contains(&(site, ty))
    }
    fn rhs(&mut self, r: &Rhs, reassigned: bool, site: usize) -> Val {
        let here = self.attributed_loop();
        let ty = match r {
            Rhs::Lit(l) => l.ty(),
            Rhs::Var(v) => self.lookup(*v).ty,
        };
        let first_pass = self.first_pass(site, ty);
        let origin = Origin { in_loop: here, reassigned, copied: matches!(r, Rhs::Var(_)), copied_from: if let Rhs::Var(w) = r { Some(*w) } else { None }, site, first_pass };
        let val = match r {
            Rhs::Lit(l) => Val { ty: l.ty(), truthy: l.truthy(), origin },
            Rhs::Var(v) => {
                let x = self.lookup(*v);
                // a copy made after the loop of a value assigned inside it still owes its type to the loop body
                Val { ty: x.ty, truthy: x.truthy, origin: Origin { in_loop: here.or(x.origin.in_loop), ..origin } }
            }
        };
        *self.site_types.entry(site).or_default() |= 1 << val.ty;
        val
    }
    fn cond(&self, c: &Cond) -> bool {
        match c {
            Cond::Opaque(k) => self.env >> k & 1 == 1,
            Cond::True => true,
            Cond::Truthy(v) => self.lookup(*v).truthy,
            Cond::NilCmp { var, ne, .. } => (self.lookup(*var).ty == 0) != *ne,
            Cond::TypeCmp { var, ty, ne, .. } => (self.lookup(*var).ty == *ty) != *ne,
            Cond::Not(x) => !self.cond(x),
            Cond::And(x, y) => self.cond(x) && self.cond(y),
            Cond::Or(x, y) => self.cond(x) || self.cond(y),
            Cond::Paren(x) => self.cond(x),
        }
    }
    fn tick(&mut self) -> bool {
        self.steps += 1;
        self.steps > self.limit
    }
    fn block(&mut self, b: &[Stmt]) -> Flow {
        let mark = self.scopes.len();
        let f = self.block_open(b);
        self.scopes.truncate(mark);
        f
    }
    fn note_assign(&mut self, v: u8, ty: u8) {
        for fr in &self.frames {
            if let Some(t0) = fr.entry_types[v as usize] {
                if t0 != ty {
                    self.loop_stats.entry(fr.key).or_default().new_type = true;
                }
            }
        }
    }
    fn enter_loop(&mut self, s: &Stmt, kind: LoopKind) {
        let mut entry_types = [None; 4];
        for v in 0..4u8 {
            if let Some((_, val)) = self.scopes.iter().rev().find(|(n, _)| *n == v) {
                entry_types[v as usize] = Some(val.ty);
            }
        }
        self.frames.push(LoopFrame { key: key(s), entry_types });
        self.loop_kinds.push(kind);
        self.loop_iters.push(0);
        self.loop_stats.entry(key(s)).or_default().kind = Some(kind);
    }
    fn leave_loop(&mut self, s: &Stmt, iterations: u32) {
        self.frames.pop();
        self.loop_kinds.pop();
        self.loop_iters.pop();
        let st = self.loop_stats.entry(key(s)).or_default();
        if iterations == 0 {
            st.zero += 1;
        } else {
            st.some += 1;
        }
    }
    fn block_open(&mut self, b: &[Stmt]) -> Flow {
        for s in b {
            if self.tick() {
                return Flow::Abort;
            }
            match s {
                Stmt::Assign(v, r) => {
                    let val = self.rhs(r, true, key(s));
                    self.note_assign(*v, val.ty);
                    self.set(*v, val);
                }
                Stmt::Local(v, r) => {
                    let val = match r {
                        Some(r) => self.rhs(r, false, key(s)),
                        None => Val { ty: 0, truthy: false, origin: Origin { in_loop: self.attributed_loop(), reassigned: false, copied: false, copied_from: None, site: key(s), first_pass: self.first_pass(key(s), 0) } },
                    };
                    self.scopes.push((*v, val));
                }
                Stmt::Probe(v) => {
                    let id = *self.ids.get(&key(s)).expect("probe rendered");
                    let val = self.lookup(*v);
                    self.events.push(Event { id, var: *v, val });
                }
                Stmt::If(arms, els) => {
                    let mut taken = false;
                    for (c, b) in arms {
                        if self.cond(c) {
                            taken = true;
                            match self.block(b) {
                                Flow::Normal => {}
                                f => return f,
                            }
                            break;
                        }
                    }
                    if !taken {
                        if let Some(b) = els {
                            match self.block(b) {
                                Flow::Normal => {}
                                f => return f,
                            }
                        }
                    }
                }
                Stmt::Do(b) => match self.block(b) {
                    Flow::Normal => {}
                    f => return f,
                },
                Stmt::Closure(_, b) => {
                    let saved_kinds = std::mem::take(&mut self.loop_kinds);
                    let saved_iters = std::mem::take(&mut self.loop_iters);
                    let saved_frames = std::mem::take(&mut self.frames);
                    let f = self.block(b);
                    self.loop_kinds = saved_kinds;
                    self.loop_iters = saved_iters;
                    self.frames = saved_frames;
                    if let Flow::Abort = f {
                        return Flow::Abort;
                    }
                }
                Stmt::Return => return Flow::Return,
                Stmt::Break => return Flow::Break,
                Stmt::While(c, bound, b) => {
                    self.enter_loop(s, while_kind(c, *bound));
                    let mut n = 0u32;
                    let mut iters = 0u32;
                    let mut out = Flow::Normal;
                    loop {
                        if self.tick() {
                            out = Flow::Abort;
                            break;
                        }
                        let mut go = self.cond(c);
                        if let Bound::CondLimit(k) = bound {
                            go = go && n < *k as u32;
                        }
                        if !go {
                            break;
                        }
                        n += 1;
                        if let Bound::BreakAfter(k) = bound {
                            if n > *k as u32 {
                                break;
                            }
                        }
                        iters += 1;
                        if let Some(i) = self.loop_iters.last_mut() {
                            *i += 1;
                        }
                        match self.block(b) {
                            Flow::Normal => {}
                            Flow::Break => break,
                            f => {
                                out = f;
                                break;
                            }
                        }
                    }
                    self.leave_loop(s, iters);
                    match out {
                        Flow::Normal => {}
                        f => return f,
                    }
                }
                Stmt::Repeat(b, c, bound) => {
                    self.enter_loop(s, LoopKind::Repeat);
                    let mut n = 0u32;
                    let mut iters = 0u32;
                    let mut out = Flow::Normal;
                    loop {
                        if self.tick() {
                            out = Flow::Abort;
                            break;
                        }
                        n += 1;
                        if let Bound::BreakAfter(k) = bound {
                            if n > *k as u32 {
                                break;
                            }
                        }
                        iters += 1;
                        if let Some(i) = self.loop_iters.last_mut() {
                            *i += 1;
                        }
                        let mark = self.scopes.len();
                        let f = self.block_open(b);
                        let stop;
                        match f {
                            Flow::Normal => {
                                let mut done = self.cond(c);
                                if let Bound::CondLimit(k) = bound {
                                    done = done || n >= *k as u32;
                                }
                                stop = done;
                            }
                            Flow::Break => stop = true,
                            f => {
                                out = f;
                                stop = true;
                            }
                        }
                        self.scopes.truncate(mark);
                        if stop {
                            break;
                        }
                    }
                    self.leave_loop(s, iters);
                    match out {
                        Flow::Normal => {}
                        f => return f,
                    }
                }
                Stmt::ForNum(k, op, b) => {
                    let count = fornum_header(*k, *op, self.env).1;
                    if let Some(f) = self.counted(s, LoopKind::ForNum, count, b) {
                        return f;
                    }
                }
                Stmt::ForIn(k, op, b) => {
                    let count = forin_header(*k, *op, self.env).1;
                    if let Some(f) = self.counted(s, LoopKind::ForIn, count, b) {
                        return f;
                    }
                }
            }
        }
        Flow::Normal
    }
    fn counted(&mut self, s: &Stmt, kind: LoopKind, count: u32, b: &[Stmt]) -> Option<Flow> {
        self.enter_loop(s, kind);
        let mut iters = 0;
        let mut out = None;
        for _ in 0..count {
            if self.tick() {
                out = Some(Flow::Abort);
                break;
            }
            iters += 1;
                        if let Some(i) = self.loop_iters.last_mut() {
                            *i += 1;
                        }
            match self.block(b) {
                Flow::Normal => {}
                Flow::Break => break,
                f => {
                    out = Some(f);
                    break;
                }
            }
        }
        self.leave_loop(s, iters);
        out
    }
}

/// runs a *normalized* program under one assignment of the opaque booleans
pub fn interpret(p: &Prog, ids: &HashMap<usize, u32>, env: u8, loop_stats: &mut HashMap<usize, LoopStat>, site_types: &mut HashMap<usize, u8>) -> Run {
    let mut it = Interp { env, ids, scopes: vec![], events: vec![], steps: 0, limit: 1500, loop_kinds: vec![], loop_iters: vec![], first_pass_sites: Default::default(), frames: vec![], loop_stats, site_types };
    for (i, l) in p.inits.iter().enumerate() {
        it.scopes.push((i as u8, Val { ty: l.ty(), truthy: l.truthy(), origin: Origin { in_loop: None, reassigned: false, copied: false, copied_from: None, site: 0, first_pass: true } }));
    }
    let f = it.block_open(&p.body);
    Run { diverged: matches!(f, Flow::Abort), events: it.events }
}

/// lexical context of every probe of a normalized program, keyed by probe id
fn collect_loops(b: &[Stmt], out: &mut Vec<(LoopKind, Option<Cond>)>) {
    for s in b {
        match s {
            Stmt::If(arms, els) => {
                for (_, b) in arms {
                    collect_loops(b, out);
                }
                if let Some(b) = els {
                    collect_loops(b, out);
                }
            }
            Stmt::Do(b) | Stmt::Closure(_, b) => collect_loops(b, out),
            Stmt::While(c, bd, b) => {
                collect_loops(b, out);
                out.push((while_kind(c, *bd), Some(c.clone())));
            }
            Stmt::Repeat(b, c, _) => {
                collect_loops(b, out);
                out.push((LoopKind::Repeat, Some(c.clone())));
            }
            Stmt::ForNum(_, _, b) => {
                collect_loops(b, out);
                out.push((LoopKind::ForNum, None));
            }
            Stmt::ForIn(_, _, b) => {
                collect_loops(b, out);
                out.push((LoopKind::ForIn, None));
            }
            _ => {}
        }
    }
}

pub fn probe_contexts(p: &Prog, ids: &HashMap<usize, u32>) -> HashMap<u32, ProbeCtx> {
    fn walk(b: &[Stmt], ctx: &ProbeCtx, ids: &HashMap<usize, u32>, out: &mut HashMap<u32, ProbeCtx>) {
        let mut ctx = ctx.clone();
        for s in b {
            match s {
                Stmt::Probe(_) => {
                    out.insert(ids[&key(s)], ctx.clone());
                }
                Stmt::If(arms, els) => {
                    let mut neg: Vec<(Cond, bool)> = vec![];
                    for (c, b) in arms {
                        let mut inner = ctx.clone();
                        inner.guards.extend(neg.iter().cloned());
                        inner.guards.push((c.clone(), true));
                        walk(b, &inner, ids, out);
                        neg.push((c.clone(), false));
                    }
                    if let Some(b) = els {
                        let mut inner = ctx.clone();
                        inner.guards.extend(neg.iter().cloned());
                        walk(b, &inner, ids, out);
                    }
                    // loops nested in the branches also precede what follows the if
                    for (_, b) in arms {
                        collect_loops(b, &mut ctx.loops_before);
                    }
                    if let Some(b) = els {
                        collect_loops(b, &mut ctx.loops_before);
                    }
                }
                Stmt::Do(b) => {
                    walk(b, &ctx, ids, out);
                    collect_loops(b, &mut ctx.loops_before);
                }
                Stmt::Closure(_, b) => {
                    // called in place: what precedes the closure precedes its body
                    let mut inner = ctx.clone();
                    inner.in_closure = true;
                    walk(b, &inner, ids, out);
                    collect_loops(b, &mut ctx.loops_before);
                }
                Stmt::While(c, _, b) | Stmt::Repeat(b, c, _) => {
                    let kind = match s {
                        Stmt::While(c, bd, _) => while_kind(c, *bd),
                        _ => LoopKind::Repeat,
                    };
                    let mut inner = ctx.clone();
                    inner.in_loop = true;
                    walk(b, &inner, ids, out);
                    collect_loops(b, &mut ctx.loops_before);
                    ctx.loops_before.push((kind, Some(c.clone())));
                }
                Stmt::ForNum(_, _, b) | Stmt::ForIn(_, _, b) => {
                    let kind = if matches!(s, Stmt::ForNum(..)) { LoopKind::ForNum } else { LoopKind::ForIn };
                    let mut inner = ctx.clone();
                    inner.in_loop = true;
                    walk(b, &inner, ids, out);
                    collect_loops(b, &mut ctx.loops_before);
                    ctx.loops_before.push((kind, None));
                }
                _ => {}
            }
        }
    }
    let mut out = HashMap::new();
    walk(&p.body, &ProbeCtx::default(), ids, &mut out);
    out
}

pub fn has_loops(b: &[Stmt]) -> bool {
    b.iter().any(|s| match s {
        Stmt::While(..) | Stmt::Repeat(..) | Stmt::ForNum(..) | Stmt::ForIn(..) => true,
        Stmt::If(arms, els) => arms.iter().any(|(_, b)| has_loops(b)) || els.as_ref().map(|b| has_loops(b)).unwrap_or(false),
        Stmt::Do(b) | Stmt::Closure(_, b) => has_loops(b),
        _ => false,
    })
}

// ------------------------------------------------------------------------------------------------
// strategies

pub fn lit() -> impl Strategy<Value = Lit> {
    prop_oneof![
        3 => Just(Lit::Nil),
        2 => Just(Lit::True),
        2 => Just(Lit::False),
        3 => (0u8..4).prop_map(Lit::Int),
        1 => (0u8..2).prop_map(Lit::Float),
        3 => (0u8..3).prop_map(Lit::Str),
        2 => (0u8..3).prop_map(Lit::Table),
        1 => Just(Lit::Func),
    ]
}

fn var() -> impl Strategy<Value = u8> {
    // low indices are more likely, so several statements talk about the same variable
    prop_oneof![4 => Just(0u8), 3 => Just(1u8), 2 => Just(2u8), 1 => Just(3u8)]
}

pub fn cond() -> BoxedStrategy<Cond> {
    let leaf = prop_oneof![
        3 => (0u8..N_OPAQUE).prop_map(Cond::Opaque),
        4 => var().prop_map(Cond::Truthy),
        4 => (var(), any::<bool>(), prop::bool::weighted(0.15)).prop_map(|(var, ne, flip)| Cond::NilCmp { var, ne, flip }),
        6 => (var(), 0u8..6, any::<bool>(), prop::bool::weighted(0.15)).prop_map(|(var, ty, ne, flip)| Cond::TypeCmp { var, ty, ne, flip }),
    ];
    leaf.prop_recursive(3, 8, 2, |inner| {
        prop_oneof![
            3 => inner.clone().prop_map(|c| Cond::Not(Box::new(c))),
            3 => (inner.clone(), inner.clone()).prop_map(|(x, y)| Cond::And(Box::new(x), Box::new(y))),
            3 => (inner.clone(), inner.clone()).prop_map(|(x, y)| Cond::Or(Box::new(x), Box::new(y))),
            1 => inner.prop_map(|c| Cond::Paren(Box::new(c))),
        ]
    })
    .boxed()
}

/// conditions typical for loops: about one variable, or opaque
fn loop_cond() -> BoxedStrategy<Cond> {
    prop_oneof![
        2 => (0u8..N_OPAQUE).prop_map(Cond::Opaque),
        3 => var().prop_map(|v| Cond::Not(Box::new(Cond::Truthy(v)))),
        2 => var().prop_map(|var| Cond::NilCmp { var, ne: false, flip: false }),
        2 => (var(), 0u8..6).prop_map(|(var, ty)| Cond::TypeCmp { var, ty, ne: true, flip: false }),
        1 => var().prop_map(Cond::Truthy),
        2 => cond(),
        2 => Just(Cond::True),
    ]
    .boxed()
}

fn rhs() -> impl Strategy<Value = Rhs> {
    prop_oneof![6 => lit().prop_map(Rhs::Lit), 1 => var().prop_map(Rhs::Var)]
}

fn bound() -> impl Strategy<Value = Bound> {
    prop_oneof![1 => Just(Bound::Natural), 4 => (0u8..4).prop_map(Bound::BreakAfter), 3 => (0u8..4).prop_map(Bound::CondLimit)]
}

fn leaf_stmt(loops: bool) -> BoxedStrategy<Stmt> {
    let brk = if loops { 2 } else { 0 };
    prop_oneof![
        8 => (var(), rhs()).prop_map(|(v, r)| Stmt::Assign(v, r)),
        8 => var().prop_map(Stmt::Probe),
        1 => (var(), proptest::option::weighted(0.8, rhs())).prop_map(|(v, r)| Stmt::Local(v, r)),
        1 => Just(Stmt::Return),
        brk => Just(Stmt::Break),
    ]
    .boxed()
}

pub fn block(loops: bool, depth: u32, max_len: usize) -> BoxedStrategy<Vec<Stmt>> {
    let leaf = leaf_stmt(loops);
    let stmt = leaf.prop_recursive(depth, 24, 4, move |inner| {
        let blk = proptest::collection::vec(inner.clone(), 0..4);
        let lw = if loops { 3 } else { 0 };
        prop_oneof![
            8 => (proptest::collection::vec((cond(), blk.clone()), 1..3), proptest::option::weighted(0.5, blk.clone())).prop_map(|(arms, els)| Stmt::If(arms, els)),
            1 => blk.clone().prop_map(Stmt::Do),
            1 => (0u8..2, blk.clone()).prop_map(|(s, b)| Stmt::Closure(s, b)),
            lw => loop_stmt_with(blk.clone()),
        ]
    });
    proptest::collection::vec(stmt, 0..max_len).boxed()
}

fn loop_stmt_with(blk: impl Strategy<Value = Vec<Stmt>> + Clone + 'static) -> BoxedStrategy<Stmt> {
    prop_oneof![
        4 => (loop_cond(), bound(), blk.clone()).prop_map(|(c, bd, b)| {
            // a loop whose condition reads no variable cannot end by itself
            let bd = if bd == Bound::Natural && !cond_has_var(&c) { Bound::BreakAfter(1) } else { bd };
            let bd = match (&c, bd) {
                (Cond::True, Bound::CondLimit(k)) => Bound::BreakAfter(k),
                _ => bd,
            };
            Stmt::While(c, bd, b)
        }),
        3 => (blk.clone(), loop_cond(), bound()).prop_map(|(b, c, bd)| {
            let bd = if bd == Bound::Natural && !cond_has_var(&c) { Bound::CondLimit(2) } else { bd };
            Stmt::Repeat(b, c, bd)
        }),
        2 => (0u8..FORNUM_KINDS, 0u8..N_OPAQUE, blk.clone()).prop_map(|(k, op, b)| Stmt::ForNum(k, op, b)),
        2 => (0u8..FORIN_KINDS, 0u8..N_OPAQUE, blk).prop_map(|(k, op, b)| Stmt::ForIn(k, op, b)),
    ]
    .boxed()
}

fn final_probes(n: usize) -> Vec<Stmt> {
    (0..n as u8).map(Stmt::Probe).collect()
}

/// C15 programs: no loops
pub fn prog(max_len: usize) -> BoxedStrategy<Prog> {
    (proptest::collection::vec(lit(), 1..5), block(false, 3, max_len))
        .prop_map(|(inits, mut body)| {
            body.extend(final_probes(inits.len()));
            Prog { inits, body }
        })
        .boxed()
}

/// C41 programs: prefix, one top-level loop (possibly under an `if`), probes of every variable, suffix
pub fn loop_prog(max_len: usize) -> BoxedStrategy<Prog> {
    let body_blk = block(true, 2, 4);
    (
        proptest::collection::vec(lit(), 1..5),
        block(false, 1, 3),
        loop_stmt_with(body_blk),
        proptest::option::weighted(0.15, cond()),
        block(true, 2, max_len),
    )
        .prop_map(|(inits, pre, lp, under_if, post)| {
            let mut body = pre;
            match under_if {
                Some(c) => body.push(Stmt::If(vec![(c, vec![lp])], None)),
                None => body.push(lp),
            }
            body.extend(final_probes(inits.len()));
            body.extend(post);
            body.extend(final_probes(inits.len()));
            Prog { inits, body }
        })
        .boxed()
}

/// the "correct code" shapes of C41's last sentence: `while <v is not yet good> do v = <good literal> end; use(v)`
#[derive(Clone, Debug, PartialEq, Eq, Serialize, Deserialize)]
pub struct ShapeProg {
    /// 0: `while not v do v = L end`, 1: `while v == nil do v = L end`, 2: `repeat v = L until v`,
    /// 3: `repeat v = L until v ~= nil`, 4: `while type(v) ~= "T" do v = L end`
    pub shape: u8,
    /// initial value: nil / false / (declared without value)
    pub init: u8,
    /// the literal assigned in the body (made truthy / non-nil by `shape_lit`)
    pub lit: Lit,
    /// statements before the assignment inside the body that do not touch v (0..2 opaque ifs)
    pub pad: u8,
}

pub fn shape_prog() -> BoxedStrategy<ShapeProg> {
    (0u8..5, 0u8..3, lit(), 0u8..3).prop_map(|(shape, init, lit, pad)| ShapeProg { shape, init, lit, pad }).boxed()
}

// ------------------------------------------------------------------------------------------------
// ddmin candidates

fn block_variants(b: &[Stmt]) -> Vec<Vec<Stmt>> {
    let mut out = vec![];
    // remove one statement
    for i in 0..b.len() {
        let mut v = b.to_vec();
        v.remove(i);
        out.push(v);
    }
    // replace a compound statement by (one of) its blocks, or simplify inside it
    for i in 0..b.len() {
        let mut repl: Vec<Vec<Stmt>> = vec![];
        match &b[i] {
            Stmt::If(arms, els) => {
                for (_, blk) in arms {
                    repl.push(blk.clone());
                }
                if let Some(e) = els {
                    repl.push(e.clone());
                    repl.push(vec![Stmt::If(arms.clone(), None)]);
                }
                if arms.len() > 1 {
                    for k in 0..arms.len() {
                        let mut a = arms.clone();
                        a.remove(k);
                        repl.push(vec![Stmt::If(a, els.clone())]);
                    }
                }
                for (k, (c, blk)) in arms.iter().enumerate() {
                    for c2 in cond_variants(c) {
                        let mut a = arms.clone();
                        a[k].0 = c2;
                        repl.push(vec![Stmt::If(a, els.clone())]);
                    }
                    for b2 in block_variants(blk) {
                        let mut a = arms.clone();
                        a[k].1 = b2;
                        repl.push(vec![Stmt::If(a, els.clone())]);
                    }
                }
                if let Some(e) = els {
                    for b2 in block_variants(e) {
                        repl.push(vec![Stmt::If(arms.clone(), Some(b2))]);
                    }
                }
            }
            Stmt::Do(blk) => {
                repl.push(blk.clone());
                for b2 in block_variants(blk) {
                    repl.push(vec![Stmt::Do(b2)]);
                }
            }
            Stmt::Closure(s, blk) => {
                repl.push(blk.clone());
                for b2 in block_variants(blk) {
                    repl.push(vec![Stmt::Closure(*s, b2)]);
                }
            }
            Stmt::While(c, bd, blk) => {
                repl.push(blk.clone());
                if *bd != Bound::Natural {
                    repl.push(vec![Stmt::While(c.clone(), Bound::Natural, blk.clone())]);
                }
                for c2 in cond_variants(c) {
                    repl.push(vec![Stmt::While(c2, *bd, blk.clone())]);
                }
                for b2 in block_variants(blk) {
                    repl.push(vec![Stmt::While(c.clone(), *bd, b2)]);
                }
            }
            Stmt::Repeat(blk, c, bd) => {
                repl.push(blk.clone());
                if *bd != Bound::Natural {
                    repl.push(vec![Stmt::Repeat(blk.clone(), c.clone(), Bound::Natural)]);
                }
                for c2 in cond_variants(c) {
                    repl.push(vec![Stmt::Repeat(blk.clone(), c2, *bd)]);
                }
                for b2 in block_variants(blk) {
                    repl.push(vec![Stmt::Repeat(b2, c.clone(), *bd)]);
                }
            }
            Stmt::ForNum(k, op, blk) => {
                repl.push(blk.clone());
                if *k != 0 {
                    repl.push(vec![Stmt::ForNum(0, *op, blk.clone())]);
                }
                for b2 in block_variants(blk) {
                    repl.push(vec![Stmt::ForNum(*k, *op, b2)]);
                }
            }
            Stmt::ForIn(k, op, blk) => {
                repl.push(blk.clone());
                if *k != 0 {
                    repl.push(vec![Stmt::ForIn(0, *op, blk.clone())]);
                }
                for b2 in block_variants(blk) {
                    repl.push(vec![Stmt::ForIn(*k, *op, b2)]);
                }
            }
            Stmt::Assign(v, Rhs::Var(_)) => repl.push(vec![Stmt::Assign(*v, Rhs::Lit(Lit::Nil))]),
            _ => {}
        }
        for r in repl {
            let mut v = b[..i].to_vec();
            v.extend(r);
            v.extend_from_slice(&b[i + 1..]);
            out.push(v);
        }
    }
    out
}

fn cond_variants(c: &Cond) -> Vec<Cond> {
    match c {
        Cond::Not(x) | Cond::Paren(x) => {
            let mut v = vec![(**x).clone()];
            v.extend(cond_variants(x).into_iter().map(|y| match c {
                Cond::Not(_) => Cond::Not(Box::new(y)),
                _ => Cond::Paren(Box::new(y)),
            }));
            v
        }
        Cond::And(x, y) | Cond::Or(x, y) => {
            let mut v = vec![(**x).clone(), (**y).clone()];
            let mk = |a: Cond, b: Cond| if matches!(c, Cond::And(..)) { Cond::And(Box::new(a), Box::new(b)) } else { Cond::Or(Box::new(a), Box::new(b)) };
            for x2 in cond_variants(x) {
                v.push(mk(x2, (**y).clone()));
            }
            for y2 in cond_variants(y) {
                v.push(mk((**x).clone(), y2));
            }
            v
        }
        Cond::NilCmp { var, ne, flip: true } => vec![Cond::NilCmp { var: *var, ne: *ne, flip: false }],
        Cond::TypeCmp { var, ty, ne, flip: true } => vec![Cond::TypeCmp { var: *var, ty: *ty, ne: *ne, flip: false }],
        _ => vec![],
    }
}

/// simpler variants of a program (one edit each), for greedy minimisation
pub fn simplify(p: &Prog) -> Vec<Prog> {
    let mut out: Vec<Prog> = block_variants(&p.body).into_iter().map(|body| Prog { inits: p.inits.clone(), body }).collect();
    if p.inits.len() > 1 {
        // dropping the last variable remaps its uses onto earlier ones (normalize takes indices modulo)
        let mut inits = p.inits.clone();
        inits.pop();
        out.push(Prog { inits, body: p.body.clone() });
    }
    out.truncate(2500);
    out
}
