//! `markup`: doc-comment bodies mixing Markdown / MyST / reStructuredText constructs with multi-byte
//! text, unterminated constructs and code blocks in every highlighted language, plus renderers that
//! wrap a body into Lua comments (`---` line comments with optional tag heads, `--[[ ]]` long comments).
use crate::gens::util;
use proptest::prelude::*;

/// words / characters that exercise byte-offset arithmetic
pub const TEXT: &[&str] = &[
    "word", "a", "Text", "x1", "foo.bar", "a_b", "é", "naïve", "名前", "日本語", "😀", "👩‍💻", "e\u{301}", "\u{a0}", "\u{200b}", "ß", "Ω", "—", "…", "“q”",
    "‘s’", "«g»", "（", "）", "「k」", "、", "。", "¿", "§", "€", "→", "\u{2028}", "٣", "x\u{fe0f}", "\t", "  ", " ", "",
];

/// inline constructs, terminated and unterminated, for all three flavours
pub const INLINE: &[&str] = &[
    // markdown emphasis
    "*em*", "**strong**", "***both***", "_em_", "__strong__", "___b___", "*", "**", "***", "_", "__", "*a **b** c*", "**a *b* c**", "*é*", "**名**", "_😀_",
    "*a", "a*", "**a", "a**", "* a *", "a*b*c", "a_b_c", "*a_", "_a*", "**a*", "*a**", "****", "*****a*****", "\\*", "\\_", "\\`", "\\\\", "\\",
    // code spans
    "`code`", "``co`de``", "```x```", "`", "``", "`a", "a`", "`名`", "`😀`", "`` ` ``", "` `", "`a``", "``a`", "`a\\`",
    // links / images / autolinks
    "[text](http://x.y/z)", "[text](url \"title\")", "[text][ref]", "[ref][]", "[ref]", "![img](u.png)", "<http://a.b>", "<a@b.c>", "[text](", "[text](url", "[text",
    "](x)", "[]()", "[[a]](b)", "[a](b(c)d)", "[名](é)", "[a]:", "[a]: ", "[*em*](u)", "[`c`](u)", "[a\\]b](c)", "[a](<b c>)", "[a](b 'c')", "[a](b (c))",
    // html / entities
    "<b>bold</b>", "<br/>", "<!-- c -->", "&amp;", "&#123;", "&", "<", ">", "<<", ">>",
    // javadoc links
    "{@link a.b}", "{@link a.b label}", "{@link 名.前}", "{@link", "{@link }", "{@link a.b", "{@linkplain x}", "@link", "{@link a.b.[c]}", "{@link a:b}", "{@link  }",
    // MyST roles / math
    "{lua:obj}`a.b.c`", "{lua:func}`f`", "{obj}`x`", "{role}`text`", "{py:class}`~a.B`", "{lua:obj}`title <a.b>`", "{lua:obj}`!a.b`", "{lua:obj}`~a.b`", "{lua:obj}`名.前`",
    "{lua:obj}`a.b", "{lua:obj}", "{lua:obj}``a``", "{}`x`", "{", "}", "{a", "{lua:obj}`a.[b]`", "{lua:obj}`a[\"k\"]`", "{lua:obj}`a.b(c)`", "{lua:obj}` `", "{lua:obj}``",
    "{math}`x^2`", "$x$", "$$x$$", "$", "$$", "$a", "a$", "$名$", "\\$", "$ a $",
    // RST roles / interpreted text / refs
    ":lua:obj:`a.b.c`", ":lua:func:`f`", ":obj:`x`", ":role:`text`", ":py:class:`~a.B`", ":lua:obj:`title <a.b>`", ":lua:obj:`!a`", ":lua:obj:`名.前`", ":lua:obj:`a.b",
    ":lua:obj:", ":lua:", "::", ":", ":a", "a:", ":a:", ":a:b:`c`", "`interp`", "`interp`:role:", "`a.b`:lua:obj:", "``literal``", "``lit", "lit``", "`` ``", "``a`b``",
    "`link`_", "`anon`__", "`link <http://x>`_", "`a <b>`__", "name_", "name__", "_name", "__", "_`inline target`", "_`a", "[1]_", "[#]_", "[#n]_", "[*]_", "[CIT]_", "[1]",
    "|subst|", "|sub|_", "|sub|__", "|", "||", "|a", "a|", "| |", "|名|", "|a b|", "http://example.com", "https://例.jp/路", "a@b.c", "x_", "_x_", "a\\ b", "\\ ",
    "*em*", "**strong**", "(*a*)", "'*a*'", "\"*a*\"", "<*a*>", "*a*.", "a*b*", "*a *", "* a*", "**a **", "(`a`)", "-`a`-", "/`a`/", "“`a`”", "（`a`）", "「*a*」",
    // misc
    "@param", "@see x", "#", "##", "-", "--", "---", "+", "=", "==", "~", "~~", "~~del~~", "^", "^sup^", "!", "!!", ".", "..", "...", ",", ";", "(", ")", "[", "]", "\"", "'", "\u{0}",
];

/// block prefixes (start of a line)
pub const BLOCK: &[&str] = &[
    "# ", "## ", "### ", "#### ", "##### ", "###### ", "####### ", "#", "#a", "- ", "* ", "+ ", "-", "*", "+", "-  ", "-     ", "- [ ] ", "- [x] ", "1. ", "1) ", "1: ", "10. ", "999999999999999999999. ", "1.",
    "0. ", "#. ", "a. ", "(a) ", "A) ", "i. ", "IV. ", "(1) ", "> ", ">", ">> ", "> > ", ">  ", "    ", "     ", "\t", " \t", "  ", "   ", " ", "| ", "|", ":: ", ".. ", "..", ">>> ", "... ",
    ":field: ", ":field name: ", ":名: ", ":param x: ", ":returns: ", ":: ", "-a  ", "-a, --long  ", "--opt=VAL  ", "/V  ", "+o  ", "term\n    ", "[1] ", "[label]: ", "[^1]: ", "$$", "$$ ",
    "``` ", "```", "~~~", ":::", "````", "~~~~", "::::", "`````", "``", "~~", "***", "---", "___", "* * *", "- - -", "_ _ _", "----", "=====", "~~~~~", "^^^^^", "\"\"\"\"", "+---+", "+===+", "=== ===",
];

/// directive / fence info strings
pub const INFO: &[&str] = &[
    "", "lua", "Lua", "json", "Json", "sql", "Sql", "shell", "Shell", "vim", "vimscript", "protobuf", "Protobuf", "none", "text", "python", "名", "lua extra", " lua", "lua ", "lua`", "{lua}", "{code-block} lua",
    "{code-block} json", "{code-block} sql", "{code-block} shell", "{code-block} vim", "{code-block} protobuf", "{code-block}", "{code} lua", "{sourcecode} lua", "{literalinclude} f.lua", "{math}",
    "{note}", "{warning} title", "{lua:function} f(x)", "{lua:class} A", "{figure} img.png", "{admonition} 名前", "{", "{}", "{note", "{note}x", "{ note }", "{eval-rst}", "{toctree}", "{code-block} 名",
];

pub const RST_DIRECTIVES: &[&str] = &[
    ".. code-block:: lua", ".. code-block:: json", ".. code-block:: sql", ".. code-block:: shell", ".. code-block:: vim", ".. code-block:: protobuf", ".. code-block::", ".. code-block:: 名", ".. code:: lua",
    ".. sourcecode:: lua", ".. literalinclude:: f.lua", ".. math::", ".. math:: x^2", ".. note::", ".. note:: inline *text*", ".. warning::", ".. lua:function:: f(x)", ".. lua:class:: A", ".. lua:data:: a.b",
    ".. image:: a.png", ".. figure:: a.png", ".. |sub| image:: a.png", ".. |名| replace:: é", ".. |sub|", ".. _target: http://x", ".. _target:", ".. _`quoted target`: x", ".. _a b: c", ".. __: http://anon", "__ http://anon",
    ".. [1] footnote", ".. [#] auto", ".. [#n] named", ".. [*] sym", ".. [CIT] citation", ".. [1]", ".. comment", "..", ".. ", "..  x", "..x", ".. a::b", ".. name::arg", ".. 名:: x", ".. a-b_c.d+e:: x", ".. ::", ".. a ::",
    ".. code-block:: lua\n   :linenos:", ".. code-block:: lua\n   :emphasize-lines: 1,2\n   :caption: 名", ".. note::\n   :class: x\n\n   body *em*", "::", "text::", "text ::", "名::",
];

pub const OPTION_LINES: &[&str] = &[":linenos:", ":caption: Title", ":name: x", ":emphasize-lines: 1,2", ":名: é", ":", "::", ":a", ":a:b", ":a: :b:", "---", "--- ", "----", "key: value", "名: 値", "---x", "", " "];

/// lines of code for the highlighted languages (and nonsense)
pub const CODE: &[&str] = &[
    // lua
    "local x = 1", "local s = \"str\"", "local s = 'é名'", "function f(a, b) return a + b end", "x.y:z(1, 2.5e3, 0xFF)", "-- comment", "--[[ long", "]]", "--[==[", "]==]", "local s = [[", "]] .. [=[x]=]",
    "if a ~= b then", "elseif not c then", "end", "goto l ::l::", "t = { a = 1, [2] = 'b'; c }", "s = \"unterminated", "s = 'unterminated", "s = \"esc \\\" \\z", "a // b >> c << d & e | f ~ g", "print('名前', \"😀\")",
    "local 名 = 1", "return function(...) end", "x = #t .. 'a'", "@decorator", "a?.b ?? c", "x = 1i + 0x1p4", "\\", "\"", "'", "[[", "[=[", "--", "---", "--- doc", "---@param x integer",
    // json
    "{", "}", "{\"key\": \"value\", \"n\": -1.5e+3, \"b\": true, \"z\": null}", "[1, 2, [3]]", "\"名\": \"é😀\"", "\"unterminated", "\"esc \\\" \\u00e9 \\", "// c", "/* c", "*/", ": ,", "tru", "-", "1e", "\"a\\", "{\"a\":",
    // sql
    "SELECT * FROM t WHERE a = 'x' AND b >= 10;", "select \"col\", `q` from t -- c", "INSERT INTO t (a, b) VALUES (1, '名');", "/* multi", "line */", "'unterminated", "CREATE TABLE 名 (id INT PRIMARY KEY);", "a <> b != c <= d || e",
    "x'ff' N'str' $1 :name @v", "'it''s'", "1.5e-3 .5 5.", "--", "/*", "#c",
    // shell
    "#!/bin/bash", "echo \"hello $USER ${HOME:-x} $(ls) `pwd`\"", "if [ -f \"$f\" ]; then", "fi", "for i in 1 2 3; do echo $i; done", "x=$((1 + 2))", "cat <<EOF", "EOF", "ls -la | grep 'é' > out 2>&1 && a || b &", "echo 'unterminated",
    "echo \"unterminated", "$", "${", "$(", "$((", "`", "\\", "名=1", "echo $名 ${名}", "case $x in a) ;; esac", "f() { :; }", "$1 $@ $? $$ $! $#", "a=\"\\\"\"", "echo \\", "${a", "$(a", "$(( 1",
    // vim
    "let g:x = 1", "function! F(a) abort", "endfunction", "\" comment", "set nocompatible", "nnoremap <leader>x :call F()<CR>", "echo 'it''s' . \"a\\\"b\"", "let s:名 = 'é'", "if has('nvim') | endif", "autocmd BufRead *.lua set ft=lua",
    "let x = \"unterminated", "let x = 'unterminated", "call s:f(1, 2.5, 0xFF)", "let &l:sw = 2", "let @a = ''", "let $ENV = 1", "\"", "'", "<", "<C-",
    // protobuf
    "syntax = \"proto3\";", "package a.b;", "message M {", "  repeated string names = 1 [deprecated = true];", "  map<string, int32> m = 2;", "  oneof o { int32 a = 3; }", "}", "enum E { A = 0; }", "service S { rpc F (Req) returns (stream Res); }",
    "import \"名.proto\";", "// c", "/* c", "*/", "\"unterminated", "optional bytes b = 4 [default = \"\\xff\"];", "option (x).y = -1.5e3;", "'", "0x1F 017 1.5f inf nan",
    // nonsense / boundaries
    "", " ", "    ", "\t", "```", "~~~", ":::", "````", "   ```", "    ```", "``` x", "名", "😀😀😀", "é", "\u{0}", "\u{feff}", "> q", "- l", "$$",
];

pub const TABLE_LINES: &[&str] = &[
    "| a | b |", "|---|---|", "| :-- | --: |", "| 名 | `c` |", "| *em* | [l](u) |", "|a|", "| a", "a | b", "--- | ---", "| \\| | x |", "|", "||", "+---+---+", "| a | b |", "+===+===+", "+---+", "| 名 |  é  |", "+-", "=== ===", "a   b",
    "=== ===", "=====  =====", "名    é", "==", "= =", "+---+---+\n| a | b |\n+---+---+",
];

pub const UNDERLINES: &[char] = &['=', '-', '~', '^', '"', '\'', '`', '#', '*', '+', ':', '.', '_', '<', '>'];

/// cross-reference roles and targets (the only items reported in cursor mode)
pub const REF_ROLES: &[&str] = &[
    "lua:obj", "lua:func", "lua:meth", "lua:class", "lua:data", "lua:const", "lua:attr", "lua:mod", "lua:alias", "lua:enum", "lua:lua", "obj", "func", "meth", "class", "data", "lua", "any", "py:func", "ref", "doc", "名", "",
];
pub const REF_TARGETS: &[&str] = &[
    "a", "a.b", "a.b.c", "a.b:c", "名.前", "a.名", "名", "a.[b]", "a.[1]", "a.[\"k\"]", "a.['k']", "a.[\"x.y\"]", "a[\"k\"]", "a.b(c)", "~a.b", "!a.b", "~名.前", "title <a.b>", "title <~a.b>", "名 <名.前>", "<a.b>", "t <名>", "t<a>",
    "a <b", "a b>", "a.", ".a", "a..b", "", " ", "  a.b  ", "a.[", "a.[]", "a.[[x]]", "a.[fun(x: y): z]", "a.[table<k, v>]", "a.[{a: b}]", "a.[\"", "a.['", "a.b.[c].d", "a.b.[1].[2]", "a.😀", "é.ß.Ω", "a-b", "a/b", "a.b c.d",
    "`", "``", "a`b", "<", ">", "< >", "a <>", "a < >",
];

/// one cross-reference in some flavour's syntax, terminated or not
pub fn reference() -> impl Strategy<Value = String> {
    (0..REF_ROLES.len(), 0..REF_TARGETS.len(), 0u8..12, 1usize..3).prop_map(|(r, t, form, ticks)| {
        let (role, target) = (REF_ROLES[r], REF_TARGETS[t]);
        let bt = "`".repeat(ticks);
        match form {
            0 | 1 => format!("{{{role}}}{bt}{target}{bt}"),
            2 | 3 => format!(":{role}:{bt}{target}{bt}"),
            4 => format!("{bt}{target}{bt}:{role}:"),
            5 | 6 => format!("{bt}{target}{bt}"),
            7 => format!("{{@link {target}}}"),
            8 => format!("{{@link {target} label}}"),
            9 => format!("{{{role}}}{bt}{target}"),
            10 => format!(":{role}:{bt}{target}"),
            _ => format!("{{@link {target}"),
        }
    })
}

fn pick(items: &'static [&'static str]) -> impl Strategy<Value = String> {
    (0..items.len()).prop_map(move |i| items[i].to_string())
}

/// one line of inline content
pub fn inline_line(max: usize) -> impl Strategy<Value = String> {
    proptest::collection::vec((prop_oneof![4 => pick(INLINE), 3 => pick(TEXT), 3 => reference()], 0u8..4), 0..max).prop_map(|parts| {
        let mut s = String::new();
        for (p, sep) in parts {
            s.push_str(&p);
            s.push_str(match sep {
                0 => "",
                1 | 2 => " ",
                _ => "  ",
            });
        }
        s
    })
}

fn indent_lines(lines: Vec<String>, prefix: &str, first: &str) -> Vec<String> {
    lines.into_iter().enumerate().map(|(i, l)| format!("{}{}", if i == 0 { first } else { prefix }, l)).collect()
}

fn split_lines(s: String) -> Vec<String> {
    s.split('\n').map(|x| x.to_string()).collect()
}

/// a leaf block: Vec of lines
fn leaf() -> BoxedStrategy<Vec<String>> {
    let code_lines = proptest::collection::vec(prop_oneof![4 => pick(CODE), 1 => inline_line(4)], 0..6);
    prop_oneof![
        // paragraph
        6 => proptest::collection::vec(inline_line(7), 1..4),
        // block prefix + inline (headings, lists, quotes, field lists, option lists ...)
        6 => (pick(BLOCK), inline_line(5)).prop_map(|(b, l)| split_lines(format!("{b}{l}"))),
        // two block prefixes
        2 => (pick(BLOCK), pick(BLOCK), inline_line(4)).prop_map(|(a, b, l)| split_lines(format!("{a}{b}{l}"))),
        // fenced block: open fence, info, option lines, code, optional close
        9 => (0usize..4, 0u8..3, 3usize..6, prop_oneof![2 => pick(INFO), 2 => (0usize..28).prop_map(|i| INFO[i].to_string())], proptest::collection::vec(pick(OPTION_LINES), 0..3), code_lines.clone(), 0u8..6, 0usize..5).prop_map(
            |(ind, fch, n, info, opts, code, close, blank_at)| {
                let ch = ["`", "~", ":"][fch as usize];
                let pad = " ".repeat(ind);
                let mut out = vec![format!("{pad}{}{info}", ch.repeat(n))];
                for o in opts {
                    out.push(format!("{pad}{o}"));
                }
                for (i, c) in code.into_iter().enumerate() {
                    if i == blank_at {
                        out.push(String::new());
                    }
                    out.push(format!("{pad}{c}"));
                }
                match close {
                    0 => {}                                              // unterminated
                    1 => out.push(format!("{pad}{}", ch.repeat(n - 1))), // too short
                    2 => out.push(format!("{pad}{}", ch.repeat(n + 1))), // longer (closes)
                    3 => out.push(format!("{}  ", ch.repeat(n))),        // other indent, trailing ws
                    _ => out.push(format!("{pad}{}", ch.repeat(n))),
                }
                out
            }
        ),
        // indented code
        2 => (code_lines.clone(), 4usize..7).prop_map(|(c, n)| c.into_iter().map(|l| format!("{}{l}", " ".repeat(n))).collect()),
        // RST directive with body
        7 => (prop_oneof![1 => pick(RST_DIRECTIVES), 1 => (0usize..9).prop_map(|i| RST_DIRECTIVES[i].to_string())], proptest::collection::vec(pick(OPTION_LINES), 0..2), any::<bool>(), code_lines.clone(), 1usize..5).prop_map(|(d, opts, blank, body, ind)| {
            let mut out = split_lines(d);
            let pad = " ".repeat(ind);
            for o in opts {
                out.push(format!("{pad}{o}"));
            }
            if blank {
                out.push(String::new());
            }
            for b in body {
                out.push(format!("{pad}{b}"));
            }
            out
        }),
        // section title with under/overline
        3 => (inline_line(3), 0..UNDERLINES.len(), 0u8..4, any::<bool>()).prop_map(|(t, u, delta, over)| {
            let n = match delta {
                0 => t.chars().count(),
                1 => t.len(),
                2 => t.chars().count().saturating_sub(1),
                _ => t.chars().count() + 3,
            };
            let line: String = std::iter::repeat(UNDERLINES[u]).take(n).collect();
            if over { vec![line.clone(), t, line] } else { vec![t, line] }
        }),
        // tables
        3 => proptest::collection::vec(pick(TABLE_LINES), 1..5).prop_map(|v| v.into_iter().flat_map(split_lines).collect()),
        // literal block / doctest / line block / definition list
        3 => (inline_line(3), 0u8..5, code_lines.clone()).prop_map(|(p, k, body)| {
            let mut out = vec![];
            match k {
                0 => {
                    out.push(format!("{p}::"));
                    out.push(String::new());
                    out.extend(body.into_iter().map(|b| format!("   {b}")));
                }
                1 => {
                    out.push("::".into());
                    out.push(String::new());
                    out.extend(body.into_iter().map(|b| format!("> {b}")));
                }
                2 => {
                    out.push(format!(">>> {p}"));
                    out.extend(body);
                }
                3 => {
                    out.push(format!("| {p}"));
                    out.extend(body.into_iter().map(|b| format!("|   {b}")));
                }
                _ => {
                    out.push(p);
                    out.extend(body.into_iter().map(|b| format!("    {b}")));
                }
            }
            out
        }),
        // math block
        // the MyST end line may carry a label `$$ (anchor)`: well-formed, unclosed, with foreign characters, empty
        2 => (proptest::collection::vec(inline_line(3), 1..3), 0usize..MATH_ENDS.len() + 2).prop_map(|(m, close)| {
            let mut out = vec!["$$".to_string()];
            out.extend(m);
            if close < MATH_ENDS.len() { out.push(MATH_ENDS[close].to_string()); } else if close == MATH_ENDS.len() { out.push("$$".to_string()); }
            out
        }),
        // blank lines / dashes-only lines (comment adornment handled by desc_to_lines)
        3 => (0u8..6).prop_map(|k| vec![match k { 0 => "", 1 => " ", 2 => "-", 3 => "----------", 4 => "- -", _ => "" }.to_string()]),
    ]
    .boxed()
}

const MATH_ENDS: &[&str] = &["$$", "$$ (eq:1)", "$$ (eq-1", "$$ (a b)", "$$ (名)", "$$ ()", "$$ (", "$$ x", "$$(a)", "$$  (a.b+c_d)  tail", "$$ (a)) (b"];

/// a body: blocks, possibly nested in quotes / list items / indentation
pub fn body(max_blocks: usize) -> impl Strategy<Value = Vec<String>> {
    let nested = (leaf(), 0u8..10, 1usize..5).prop_map(|(lines, k, n)| match k {
        0 => indent_lines(lines, "> ", "> "),
        1 => indent_lines(lines, ">", "> > "),
        2 => indent_lines(lines, "  ", "- "),
        3 => indent_lines(lines, "   ", "1. "),
        4 => {
            let p = " ".repeat(n);
            indent_lines(lines, &p, &p)
        }
        5 => indent_lines(lines, "   ", ".. note:: "),
        6 => indent_lines(lines, "    ", "* "),
        _ => lines,
    });
    proptest::collection::vec((nested, 0u8..4), 0..max_blocks).prop_map(|blocks| {
        let mut out = vec![];
        for (b, blank) in blocks {
            out.extend(b);
            if blank == 0 {
                out.push(String::new());
            }
        }
        out
    })
}

/// how a body is wrapped into Lua source
#[derive(Clone, Debug)]
pub struct Wrap {
    pub kind: u8,
    pub prefix: u8,
    pub vary: Vec<u8>,
    pub indent: u8,
    pub crlf: bool,
    pub head: u8,
    pub tail: u8,
    pub level: u8,
}

pub const HEADS: &[&str] = &[
    "", "", "", "---@param x integer ", "---@param x integer # ", "---@return integer r ", "---@return integer # ", "---@class A ", "---@class A # ", "---@field f string ", "---@field f string # ", "---@type integer ", "---@alias B string ",
    "---@see x ", "---@deprecated ", "---@version 5.4 ", "---@generic T ", "---@overload fun() ", "---@enum E ", "---@operator add(A): A ", "---@cast x integer ", "---@async ", "---@unknown ", "---@param x integer\n---", "---@class A\n--- ",
    "---|", "---| 'a' # ", "---@field f string @", "---@return integer @ ",
];
const PREFIXES: &[&str] = &["---", "--- ", "---  ", "---\t", "----", "-- ", "--", "--- @"];
const TAILS: &[&str] = &["", "local x = 1\n", "function f() end\n", "return\n", "local t = { a = 1 }\n", "x.y = 1", "\n\n"];

pub fn wrap() -> impl Strategy<Value = Wrap> {
    (
        prop_oneof![6 => Just(0u8), 2 => Just(1u8), 1 => Just(2u8)],
        prop_oneof![8 => 0u8..3, 1 => 3u8..8],
        proptest::collection::vec(0u8..8, 0..3),
        prop_oneof![3 => Just(0u8), 1 => 1u8..9],
        proptest::bool::weighted(0.2),
        0..HEADS.len() as u8,
        0..TAILS.len() as u8,
        0u8..3,
    )
        .prop_map(|(kind, prefix, vary, indent, crlf, head, tail, level)| Wrap { kind, prefix, vary, indent, crlf, head, tail, level })
}

/// renders the body as Lua source
pub fn render(lines: &[String], w: &Wrap) -> String {
    let eol = if w.crlf { "\r\n" } else { "\n" };
    let pad = " ".repeat(w.indent as usize);
    let mut s = String::new();
    match w.kind {
        // `---` line comments
        0 | 2 => {
            let head = HEADS[w.head as usize % HEADS.len()];
            let pre = PREFIXES[w.prefix as usize % PREFIXES.len()];
            let mut first = true;
            if lines.is_empty() && !head.is_empty() {
                s.push_str(&pad);
                s.push_str(&head.replace('\n', &format!("{eol}{pad}")));
                s.push_str(eol);
            }
            for (i, l) in lines.iter().enumerate() {
                s.push_str(&pad);
                if first && !head.is_empty() {
                    s.push_str(&head.replace('\n', &format!("{eol}{pad}")));
                } else {
                    // a few lines use another prefix (e.g. `--` lines are skipped by desc_to_lines)
                    let p = if w.kind == 2 && !w.vary.is_empty() && i % 3 == 1 { PREFIXES[w.vary[i % w.vary.len()] as usize % PREFIXES.len()] } else { pre };
                    s.push_str(p);
                }
                first = false;
                s.push_str(l);
                s.push_str(eol);
            }
        }
        // long comment
        _ => {
            let eq = "=".repeat(w.level as usize);
            let head = HEADS[w.head as usize % HEADS.len()];
            s.push_str(&pad);
            s.push_str(&format!("--[{eq}["));
            if let Some(tag) = head.strip_prefix("---") {
                if !tag.contains('\n') {
                    s.push_str(tag);
                }
            }
            for (i, l) in lines.iter().enumerate() {
                if i > 0 {
                    s.push_str(eol);
                    s.push_str(&pad);
                }
                s.push_str(l);
            }
            if w.prefix != 7 {
                s.push_str(&format!("]{eq}]"));
            }
            s.push_str(eol);
        }
    }
    let tail = TAILS[w.tail as usize % TAILS.len()];
    if !tail.is_empty() {
        s.push_str(&pad);
        s.push_str(tail);
    }
    s
}

/// full Lua text with 1..=2 wrapped bodies, optionally mutated; returns (text, source label)
pub fn lua_with_markup(max_blocks: usize) -> impl Strategy<Value = (String, String)> {
    let one = (body(max_blocks), wrap()).prop_map(|(b, w)| (render(&b, &w), w.kind)).boxed();
    prop_oneof![
        6 => one.clone().prop_map(|(t, k)| (t, format!("wrap{k}"))),
        2 => (one.clone(), one.clone(), any::<bool>()).prop_map(|((a, _), (b, _), sep)| (format!("{a}{}{b}", if sep { "\n" } else { "" }), "two".to_string())),
        2 => (one, proptest::collection::vec(util::mut_strategy(), 1..4)).prop_map(|((t, _), muts)| {
            let mut t = t;
            for m in &muts {
                t = util::apply_mut(&t, m);
            }
            (t, "mutated".to_string())
        }),
    ]
}
