//! Inputs of the formatter checks (C05–C07): generated programs, statement-aligned windows of real files
//! (corpus/std, corpus/snippets), whitespace/line-level and grammar-blind mutations of those, × configurations.
//! Also the shared minimisation candidates (config groups → default, statement removal, text ddmin).
use crate::engine::Tier;
use crate::gens::{fmt_config, fmt_prog, util};
use crate::oracle::tokcanon;
use emmylua_formatter::LuaFormatConfig;
use emmylua_parser::{LuaSyntaxKind, LuaSyntaxNode};
use proptest::prelude::*;
use serde::{Deserialize, Serialize};
use std::sync::{Arc, OnceLock};

#[derive(Clone, Debug, Serialize, Deserialize)]
pub struct FmtCase {
    pub text: String,
    /// language level index (gens::util::level)
    pub level: u8,
    pub cfg: LuaFormatConfig,
    /// provenance label
    pub src: String,
}

pub struct CorpusFile {
    pub name: String,
    pub text: String,
    /// start offsets of the top-level items (statements and comments) + text.len(); empty if the file has syntax errors
    pub cuts: Vec<usize>,
}

pub fn corpus() -> &'static Arc<Vec<CorpusFile>> {
    static C: OnceLock<Arc<Vec<CorpusFile>>> = OnceLock::new();
    C.get_or_init(|| {
        let mut out = vec![];
        for (name, text) in util::corpus_files() {
            if !(name.ends_with(".lua")) || text.len() < 6 {
                continue;
            }
            let tree = tokcanon::parse(&text, 0);
            let mut cuts = vec![];
            if !tree.has_syntax_errors() {
                let root = tree.get_red_root();
                if let Some(block) = root.children().find(|n| n.kind().to_syntax() == LuaSyntaxKind::Block) {
                    for ch in block.children() {
                        cuts.push(usize::from(ch.text_range().start()));
                    }
                }
                if cuts.is_empty() {
                    cuts.push(0);
                }
                cuts[0] = 0;
                cuts.push(text.len());
            }
            out.push(CorpusFile { name, text, cuts });
        }
        Arc::new(out)
    })
}

/// line-level (mostly validity-preserving) and grammar-blind mutations
#[derive(Clone, Debug)]
pub enum LMut {
    DelLine(u16),
    DupLine(u16),
    SwapLines(u16, u16),
    Join(u16),
    Split(u16),
    Indent(u16, u8),
    Trail(u16),
    Blank(u16, u8),
    Raw(util::Mut),
}

fn lines_of(s: &str) -> Vec<&str> {
    s.split_inclusive('\n').collect()
}

pub fn apply_lmut(s: &str, m: &LMut) -> String {
    let ls = lines_of(s);
    if ls.is_empty() {
        return s.to_string();
    }
    let at = |raw: u16| util::idx(raw, ls.len());
    match m {
        LMut::DelLine(p) => {
            let i = at(*p);
            ls.iter().enumerate().filter(|(k, _)| *k != i).map(|(_, l)| *l).collect()
        }
        LMut::DupLine(p) => {
            let i = at(*p);
            let mut out = String::new();
            for (k, l) in ls.iter().enumerate() {
                out.push_str(l);
                if k == i {
                    if !l.ends_with('\n') {
                        out.push('\n');
                    }
                    out.push_str(l);
                }
            }
            out
        }
        LMut::SwapLines(p, q) => {
            let (i, j) = (at(*p), at(*q));
            let mut v: Vec<String> = ls.iter().map(|l| if l.ends_with('\n') { l.to_string() } else { format!("{l}\n") }).collect();
            v.swap(i, j);
            v.concat()
        }
        LMut::Join(p) => {
            // replace the p-th newline by a space
            let nls: Vec<usize> = s.match_indices('\n').map(|(i, _)| i).collect();
            if nls.is_empty() {
                return s.to_string();
            }
            let i = nls[util::idx(*p, nls.len())];
            let a = if i > 0 && s.as_bytes()[i - 1] == b'\r' { i - 1 } else { i };
            format!("{} {}", &s[..a], &s[i + 1..])
        }
        LMut::Split(p) => {
            // replace the p-th space by a newline
            let sps: Vec<usize> = s.match_indices(' ').map(|(i, _)| i).collect();
            if sps.is_empty() {
                return s.to_string();
            }
            let i = sps[util::idx(*p, sps.len())];
            format!("{}\n{}", &s[..i], &s[i + 1..])
        }
        LMut::Indent(p, n) => {
            let i = at(*p);
            let mut out = String::new();
            for (k, l) in ls.iter().enumerate() {
                if k == i {
                    if *n % 5 == 4 {
                        out.push('\t');
                    } else {
                        for _ in 0..(*n % 9) {
                            out.push(' ');
                        }
                    }
                    if *n >= 128 {
                        out.push_str(l.trim_start_matches([' ', '\t']));
                        continue;
                    }
                }
                out.push_str(l);
            }
            out
        }
        LMut::Trail(p) => {
            // trailing whitespace at the end of a line
            let i = at(*p);
            let mut out = String::new();
            for (k, l) in ls.iter().enumerate() {
                if k == i {
                    let body = l.trim_end_matches(['\n', '\r']);
                    out.push_str(body);
                    out.push_str("  ");
                    out.push_str(&l[body.len()..]);
                } else {
                    out.push_str(l);
                }
            }
            out
        }
        LMut::Blank(p, n) => {
            let i = at(*p);
            let mut out = String::new();
            for (k, l) in ls.iter().enumerate() {
                if k == i {
                    for _ in 0..(1 + *n % 4) {
                        out.push('\n');
                    }
                }
                out.push_str(l);
            }
            out
        }
        LMut::Raw(m) => util::apply_mut(s, m),
    }
}

pub fn lmut_strategy() -> impl Strategy<Value = LMut> {
    prop_oneof![
        2 => any::<u16>().prop_map(LMut::DelLine),
        1 => any::<u16>().prop_map(LMut::DupLine),
        1 => (any::<u16>(), any::<u16>()).prop_map(|(a, b)| LMut::SwapLines(a, b)),
        3 => any::<u16>().prop_map(LMut::Join),
        3 => any::<u16>().prop_map(LMut::Split),
        2 => (any::<u16>(), any::<u8>()).prop_map(|(a, b)| LMut::Indent(a, b)),
        1 => any::<u16>().prop_map(LMut::Trail),
        1 => (any::<u16>(), any::<u8>()).prop_map(|(a, b)| LMut::Blank(a, b)),
        3 => util::mut_strategy().prop_map(LMut::Raw),
    ]
}

/// (text, provenance) of a statement-aligned window of a corpus file
fn window() -> impl Strategy<Value = (String, String)> {
    let c = corpus().clone();
    let n = c.len().max(1);
    (0..n, any::<u16>(), 1usize..14).prop_map(move |(i, start, len)| {
        let Some(f) = c.get(i) else { return ("local x = 1\n".to_string(), "none".to_string()) };
        if f.cuts.len() < 2 {
            return (f.text.clone(), format!("file:{}", f.name));
        }
        let items = f.cuts.len() - 1;
        let a = util::idx(start, items);
        let b = (a + len).min(items);
        (f.text[f.cuts[a]..f.cuts[b]].to_string(), format!("window:{}", if f.name.starts_with("fmt_") { "snippet" } else { "std" }))
    })
}

fn level_strategy() -> impl Strategy<Value = u8> {
    prop_oneof![3 => Just(0u8), 2 => 0u8..8]
}

/// (text, level, provenance)
pub fn text_input(tier: Tier) -> BoxedStrategy<(String, u8, String)> {
    prop_oneof![
        5 => fmt_prog::program(tier).prop_map(|(s, l)| (s, l, "gen".to_string())),
        3 => (window(), level_strategy()).prop_map(|((t, src), l)| (t, l, src)),
        3 => (window(), proptest::collection::vec(lmut_strategy(), 1..4), level_strategy()).prop_map(|((t, _), ms, l)| {
            let mut t = t;
            for m in &ms {
                t = apply_lmut(&t, m);
            }
            (t, l, "mutated".to_string())
        }),
        1 => (fmt_prog::program(tier), proptest::collection::vec(lmut_strategy(), 1..3)).prop_map(|((s, l), ms)| {
            let mut t = s;
            for m in &ms {
                t = apply_lmut(&t, m);
            }
            (t, l, "gen-mutated".to_string())
        }),
    ]
    .boxed()
}

/// Width chosen near the length of one of the text's lines (± 3) half of the time: long lines straddling the limit.
fn adjust_width(text: &str, cfg: &mut LuaFormatConfig, pick: Option<(u16, i8)>) {
    if let Some((line, delta)) = pick {
        let ls: Vec<&str> = text.lines().filter(|l| l.chars().count() >= 20).collect();
        if !ls.is_empty() {
            let l = ls[util::idx(line, ls.len())];
            let w = (l.trim_end().chars().count() as i64 + delta as i64).clamp(20, 160) as usize;
            cfg.layout.max_line_width = w;
        }
    }
}

pub fn case(tier: Tier) -> BoxedStrategy<FmtCase> {
    (text_input(tier), fmt_config::config(), proptest::option::weighted(0.4, (any::<u16>(), -3i8..=3)))
        .prop_map(|((text, level, src), mut cfg, pick)| {
            adjust_width(&text, &mut cfg, pick);
            cfg.syntax.level = fmt_config::syntax_level(level);
            FmtCase { text, level, cfg, src }
        })
        .boxed()
}

/// deterministic corpus cases: every std file and every k-th snippet under the default config and a few fixed ones
pub fn fixed(tier: Tier) -> Vec<FmtCase> {
    let mut cfgs = vec![LuaFormatConfig::default()];
    let mut narrow = LuaFormatConfig::default();
    narrow.layout.max_line_width = 40;
    narrow.indent.width = 2;
    cfgs.push(narrow);
    let mut alt = LuaFormatConfig::default();
    alt.output.quote_style = emmylua_formatter::QuoteStyle::Double;
    alt.output.single_arg_call_parens = emmylua_formatter::SingleArgCallParens::Always;
    alt.output.trailing_comma = emmylua_formatter::TrailingComma::Multiline;
    alt.output.preserve_statement_semicolon = true;
    alt.output.end_of_line = emmylua_formatter::EndOfLine::CRLF;
    alt.emmy_doc.space_between_tag_columns = true;
    alt.emmy_doc.compact_type_or = true;
    alt.comments.align_in_statements = true;
    alt.align.continuous_assign_statement = true;
    alt.indent.kind = emmylua_formatter::IndentKind::Tab;
    alt.layout.max_line_width = 80;
    cfgs.push(alt);
    let step = tier.pick(1, 1);
    let mut out = vec![];
    for (k, f) in corpus().iter().enumerate() {
        if k % step != 0 {
            continue;
        }
        let is_std = !f.name.starts_with("fmt_");
        for (ci, cfg) in cfgs.iter().enumerate() {
            if !is_std && ci > 0 && tier == Tier::Quick && (k + ci) % 3 != 0 {
                continue;
            }
            out.push(FmtCase { text: f.text.clone(), level: 0, cfg: cfg.clone(), src: format!("corpus:{}", f.name) });
        }
    }
    out
}

// ------------------------------------------------------------------------------------------------ minimisation

/// candidate configs closer to the default: whole default, then one group at a time, then single knobs of a group
pub fn simpler_configs(cfg: &LuaFormatConfig) -> Vec<LuaFormatConfig> {
    let d = LuaFormatConfig::default();
    let cur = serde_json::to_value(cfg).unwrap_or_default();
    let dv = serde_json::to_value(&d).unwrap_or_default();
    let mut out: Vec<LuaFormatConfig> = vec![];
    let mut push = |v: serde_json::Value| {
        if v != cur {
            if let Ok(c) = serde_json::from_value::<LuaFormatConfig>(v) {
                out.push(c);
            }
        }
    };
    let mut all = dv.clone();
    all["syntax"] = cur["syntax"].clone();
    push(all);
    if let (Some(co), Some(dobj)) = (cur.as_object(), dv.as_object()) {
        for (g, _) in co {
            if g == "syntax" {
                continue;
            }
            if co[g] != dobj[g] {
                let mut v = cur.clone();
                v[g] = dobj[g].clone();
                push(v);
            }
        }
        for (g, gv) in co {
            if g == "syntax" {
                continue;
            }
            if let Some(go) = gv.as_object() {
                for (k, x) in go {
                    if dobj[g][k] != *x {
                        let mut v = cur.clone();
                        v[g][k] = dobj[g][k].clone();
                        push(v);
                    }
                }
            }
        }
    }
    out
}

fn collect_items(node: &LuaSyntaxNode, out: &mut Vec<(usize, usize, Option<(usize, usize)>)>) {
    for ch in node.children() {
        let k = ch.kind().to_syntax();
        if k == LuaSyntaxKind::Block {
            for item in ch.children() {
                let r = item.text_range();
                // unwrap candidate: replace a block-carrying statement by its first inner block
                let inner = item.descendants().skip(1).find(|n| n.kind().to_syntax() == LuaSyntaxKind::Block).map(|b| {
                    let br = b.text_range();
                    (usize::from(br.start()), usize::from(br.end()))
                });
                out.push((usize::from(r.start()), usize::from(r.end()), inner));
            }
        }
        collect_items(&ch, out);
    }
}

/// Edits (remove [a,b) / replace [a,b) by inner [c,d)) that delete whole statements/comments, largest first;
/// then lines; then ddmin chunks.  Each edit is returned as (start, end, replacement).
pub fn text_edits(text: &str, level: u8) -> Vec<(usize, usize, String)> {
    let mut edits: Vec<(usize, usize, String)> = vec![];
    let tree = tokcanon::parse(text, level);
    let mut items = vec![];
    collect_items(&tree.get_red_root(), &mut items);
    items.sort_by_key(|(a, b, _)| std::cmp::Reverse(b - a));
    for (a, b, inner) in items.iter().take(200) {
        // also swallow the rest of the line if only whitespace follows
        let mut e = *b;
        let bytes = text.as_bytes();
        while e < bytes.len() && (bytes[e] == b' ' || bytes[e] == b'\t') {
            e += 1;
        }
        if e < bytes.len() && bytes[e] == b'\n' {
            e += 1;
        } else {
            e = *b;
        }
        edits.push((*a, e, String::new()));
        if let Some((c, d)) = inner {
            if *d > *c {
                edits.push((*a, *b, text[*c..*d].trim().to_string()));
            }
        }
    }
    // expression-level: replace any expression node by a short literal
    let mut exprs: Vec<(usize, usize)> = vec![];
    for n in tree.get_red_root().descendants() {
        let k = format!("{:?}", n.kind().to_syntax());
        if k.ends_with("Expr") && k != "NameExpr" {
            let r = n.text_range();
            if usize::from(r.end()) - usize::from(r.start()) > 1 {
                exprs.push((usize::from(r.start()), usize::from(r.end())));
            }
        }
    }
    exprs.sort_by_key(|(a, b)| std::cmp::Reverse(b - a));
    for (a, b) in exprs.into_iter().take(120) {
        edits.push((a, b, "x".to_string()));
    }
    // lines
    let mut pos = 0;
    let ls = lines_of(text);
    if ls.len() <= 200 {
        for l in ls {
            edits.push((pos, pos + l.len(), String::new()));
            pos += l.len();
        }
    }
    edits
}

pub fn apply_edit(text: &str, e: &(usize, usize, String)) -> Option<String> {
    if e.0 > e.1 || e.1 > text.len() || !text.is_char_boundary(e.0) || !text.is_char_boundary(e.1) {
        return None;
    }
    let t = format!("{}{}{}", &text[..e.0], e.2, &text[e.1..]);
    if t == text { None } else { Some(t) }
}

pub fn simplify(c: &FmtCase) -> Vec<FmtCase> {
    let mut out = vec![];
    for e in text_edits(&c.text, c.level) {
        if let Some(t) = apply_edit(&c.text, &e) {
            out.push(FmtCase { text: t, ..c.clone() });
        }
    }
    if c.text.len() <= 400 {
        for t in util::text_simplify(&c.text) {
            out.push(FmtCase { text: t, ..c.clone() });
        }
    }
    for cfg in simpler_configs(&c.cfg) {
        out.push(FmtCase { cfg, ..c.clone() });
    }
    if c.level != 0 {
        let mut cfg = c.cfg.clone();
        cfg.syntax.level = fmt_config::syntax_level(0);
        out.push(FmtCase { level: 0, cfg, ..c.clone() });
    }
    out
}
