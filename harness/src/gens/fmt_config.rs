//! Structural generator of `LuaFormatConfig`: every enum and boolean knob, widths, indent, EOL, blank lines.
use emmylua_formatter::config::SimpleLambdaSingleLine;
use emmylua_formatter::{
    AlignConfig, CommentConfig, EmmyDocConfig, EndOfLine, ExpandStrategy, IndentConfig, IndentKind, LayoutConfig, LuaFormatConfig,
    OutputConfig, QuoteStyle, SingleArgCallParens, SpacingConfig, TrailingComma, TrailingTableSeparator,
};
use proptest::prelude::*;

fn expand() -> impl Strategy<Value = ExpandStrategy> {
    (0u8..3).prop_map(|i| match i {
        0 => ExpandStrategy::Auto,
        1 => ExpandStrategy::Never,
        _ => ExpandStrategy::Always,
    })
}

fn bits(n: usize) -> impl Strategy<Value = Vec<bool>> {
    proptest::collection::vec(any::<bool>(), n..=n)
}

/// width: 20..=160 with a bias to narrow widths (where breaking decisions happen)
fn width() -> impl Strategy<Value = usize> {
    prop_oneof![3 => 20usize..=60, 2 => 60usize..=100, 1 => 100usize..=160]
}

fn layout() -> impl Strategy<Value = LayoutConfig> {
    (width(), 0usize..=3, expand(), expand(), expand(), bits(4)).prop_map(|(w, bl, t, c, f, b)| LayoutConfig {
        max_line_width: w,
        max_blank_lines: bl,
        table_expand: t,
        call_args_expand: c,
        func_params_expand: f,
        prefer_call_args_layout_from_source: b[0],
        prefer_table_layout_from_source: b[1],
        prefer_chain_break_on_statement_tail: b[2],
        prefer_binary_chain_operand_per_line: b[3],
    })
}

fn output() -> impl Strategy<Value = OutputConfig> {
    (bits(3), 0u8..3, 0u8..4, 0u8..3, 0u8..3, 0u8..3).prop_map(|(b, tc, tts, q, p, l)| OutputConfig {
        insert_final_newline: !b[0],
        preserve_statement_semicolon: b[1],
        trailing_comma: match tc {
            0 => TrailingComma::Never,
            1 => TrailingComma::Multiline,
            _ => TrailingComma::Always,
        },
        trailing_table_separator: match tts {
            0 => TrailingTableSeparator::Inherit,
            1 => TrailingTableSeparator::Never,
            2 => TrailingTableSeparator::Multiline,
            _ => TrailingTableSeparator::Always,
        },
        quote_style: match q {
            0 => QuoteStyle::Preserve,
            1 => QuoteStyle::Double,
            _ => QuoteStyle::Single,
        },
        single_arg_call_parens: match p {
            0 => SingleArgCallParens::Preserve,
            1 => SingleArgCallParens::Always,
            _ => SingleArgCallParens::Omit,
        },
        simple_lambda_single_line: match l {
            0 => SimpleLambdaSingleLine::Preserve,
            1 => SimpleLambdaSingleLine::Always,
            _ => SimpleLambdaSingleLine::Never,
        },
        end_of_line: if b[2] { EndOfLine::CRLF } else { EndOfLine::LF },
    })
}

fn spacing() -> impl Strategy<Value = SpacingConfig> {
    bits(9).prop_map(|b| SpacingConfig {
        space_before_call_paren: b[0],
        space_before_func_paren: b[1],
        space_before_lambda_func_paren: !b[2],
        space_inside_braces: !b[3],
        space_inside_parens: b[4],
        space_inside_brackets: b[5],
        space_around_math_operator: !b[6],
        space_around_concat_operator: !b[7],
        space_around_assign_operator: !b[8],
    })
}

fn comments() -> impl Strategy<Value = CommentConfig> {
    (bits(8), 0usize..=4, prop_oneof![2 => Just(0usize), 1 => 1usize..=60]).prop_map(|(b, sp, col)| CommentConfig {
        align_line_comments: !b[0],
        align_in_statements: b[1],
        align_in_table_fields: !b[2],
        align_in_call_args: !b[3],
        align_in_params: !b[4],
        align_across_standalone_comments: b[5],
        align_same_kind_only: b[6],
        space_after_comment_dash: !b[7],
        line_comment_min_spaces_before: sp,
        line_comment_min_column: col,
    })
}

fn emmy_doc() -> impl Strategy<Value = EmmyDocConfig> {
    bits(7).prop_map(|b| EmmyDocConfig {
        align_tag_columns: !b[0],
        align_declaration_tags: !b[1],
        align_reference_tags: !b[2],
        align_multiline_alias_descriptions: !b[3],
        space_between_tag_columns: b[4],
        space_after_description_dash: !b[5],
        compact_type_or: b[6],
    })
}

fn indent() -> impl Strategy<Value = IndentConfig> {
    (any::<bool>(), 1usize..=8).prop_map(|(tab, w)| IndentConfig { kind: if tab { IndentKind::Tab } else { IndentKind::Space }, width: w })
}

fn align() -> impl Strategy<Value = AlignConfig> {
    bits(2).prop_map(|b| AlignConfig { continuous_assign_statement: b[0], table_field: !b[1] })
}

/// All knobs random (the boolean generators are arranged so that `false` bits = the shipped default, so shrinking
/// moves towards the default configuration).
pub fn any_config() -> impl Strategy<Value = LuaFormatConfig> {
    (indent(), layout(), output(), spacing(), comments(), emmy_doc(), align()).prop_map(|(indent, layout, output, spacing, comments, emmy_doc, align)| {
        LuaFormatConfig { syntax: Default::default(), indent, layout, output, spacing, comments, emmy_doc, align }
    })
}

/// Mix: the default configuration with only the layout group varied (what most users run), or everything random.
pub fn config() -> BoxedStrategy<LuaFormatConfig> {
    prop_oneof![
        1 => Just(LuaFormatConfig::default()),
        2 => (width(), 0usize..=3).prop_map(|(w, bl)| {
            let mut c = LuaFormatConfig::default();
            c.layout.max_line_width = w;
            c.layout.max_blank_lines = bl;
            c
        }),
        7 => any_config(),
    ]
    .boxed()
}

/// the formatter's syntax level enum for a harness level index (see `gens::util::level`)
pub fn syntax_level(i: u8) -> emmylua_formatter::LuaSyntaxLevel {
    use emmylua_formatter::LuaSyntaxLevel::*;
    match i % 8 {
        0 => Lua55,
        1 => Lua54,
        2 => Lua53,
        3 => Lua52,
        4 => Lua51,
        5 => LuaJITExt, // parser level LuaJIT
        6 => LuaJIT,    // parser level LuaJIT2
        _ => LuaJIT3,
    }
}

/// short label of the knobs that differ from the default (for messages)
pub fn describe(c: &LuaFormatConfig) -> String {
    let d = serde_json::to_value(LuaFormatConfig::default()).unwrap_or_default();
    let v = serde_json::to_value(c).unwrap_or_default();
    let mut out = vec![];
    if let (Some(dv), Some(vv)) = (d.as_object(), v.as_object()) {
        for (g, gv) in vv {
            if let (Some(a), Some(b)) = (gv.as_object(), dv.get(g).and_then(|x| x.as_object())) {
                for (k, x) in a {
                    if b.get(k) != Some(x) {
                        out.push(format!("{g}.{k}={x}"));
                    }
                }
            }
        }
    }
    if out.is_empty() { "default".into() } else { out.join(" ") }
}
