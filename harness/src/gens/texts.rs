//! `texts`: small line-structured texts (ASCII / BMP / astral, `\n` `\r\n` `\r`, empty lines, no
//! trailing newline) for C22, and Lua documents with uniquely named global reads placed behind
//! astral / BMP characters and every terminator style for C23.
use proptest::prelude::*;
use serde::{Deserialize, Serialize};

pub const ASCII: &[char] = &['a', 'b', 'Z', '0', ' ', '\t', '-', '"', '=', '~'];
/// BMP non-ASCII: 2-byte and 3-byte UTF-8, a combining mark, Unicode line separators that are NOT
/// protocol line terminators, BOM, the last BMP scalar
pub const BMP: &[char] = &['é', 'ß', '名', '字', '\u{301}', '\u{2028}', '\u{85}', '\u{feff}', '\u{ffff}', '\u{7ff}', '\u{800}'];
/// astral: 4-byte UTF-8 = 2 UTF-16 units
pub const ASTRAL: &[char] = &['😀', '𝒳', '\u{10000}', '\u{10ffff}', '🇩'];

fn pick(alpha: u8, i: u8) -> char {
    match alpha % 3 {
        0 => ASCII[i as usize % ASCII.len()],
        1 => BMP[i as usize % BMP.len()],
        _ => ASTRAL[i as usize % ASTRAL.len()],
    }
}

/// one line's content: kind 0 = ASCII only, 1 = ASCII+BMP, 2 = ASCII+BMP+astral, 3 = astral heavy
fn line_content(max_chars: usize) -> impl Strategy<Value = String> {
    (0u8..4, proptest::collection::vec((0u8..6, any::<u8>()), 0..=max_chars)).prop_map(|(kind, cs)| {
        cs.into_iter()
            .map(|(a, i)| {
                let alpha = match kind {
                    0 => 0,
                    1 => [0, 0, 0, 1, 1, 0][a as usize],
                    2 => [0, 0, 1, 1, 2, 2][a as usize],
                    _ => [0, 2, 2, 2, 2, 1][a as usize],
                };
                pick(alpha, i)
            })
            .collect()
    })
}

pub fn terminator() -> impl Strategy<Value = &'static str> {
    prop_oneof![5 => Just("\n"), 3 => Just("\r\n"), 1 => Just("\r")]
}

/// small text: 0..=max_lines terminated lines + an optional unterminated last line
pub fn small_text(max_lines: usize, max_chars: usize) -> impl Strategy<Value = String> {
    (proptest::collection::vec((line_content(max_chars), terminator()), 0..=max_lines), proptest::option::of(line_content(max_chars))).prop_map(|(ls, last)| {
        let mut s = String::new();
        for (l, t) in ls {
            s.push_str(&l);
            s.push_str(t);
        }
        if let Some(l) = last {
            s.push_str(&l);
        }
        s
    })
}

// ------------------------------------------------------------------------------------------------
// C23 documents

#[derive(Clone, Debug, Serialize, Deserialize)]
pub enum Arg {
    /// a short string literal `"…"`
    Str(String),
    /// a uniquely named global read
    Name,
}

#[derive(Clone, Debug, Serialize, Deserialize)]
pub enum Seg {
    /// `G<k>(args…)` – a call statement whose callee is a uniquely named undefined global
    Call(Vec<Arg>),
    /// `--[[ … ]]` on one line
    LongComment(String),
    /// `local _ = "…"`
    LocalStr(String),
    /// `local _ = [[ l1 <term> l2 <term> … ]]` – a long string spanning lines
    LongStr(Vec<(String, u8)>),
    /// `--[==[ l1 <term> l2 … ]==]` – a long comment spanning lines
    LongCommentMulti(Vec<(String, u8)>),
}

#[derive(Clone, Debug, Serialize, Deserialize)]
pub struct DocLine {
    pub indent: u8,
    pub segs: Vec<Seg>,
    /// trailing `-- …` comment (runs to the terminator)
    pub tail: Option<String>,
    /// 0 = `\n`, 1 = `\r\n`, 2 = `\r`
    pub term: u8,
}

#[derive(Clone, Debug, Serialize, Deserialize)]
pub struct Doc {
    pub lines: Vec<DocLine>,
    /// whether the last line keeps its terminator
    pub trailing: bool,
}

#[derive(Clone, Debug)]
pub struct Tok {
    pub name: String,
    pub start: usize,
    pub end: usize,
}

pub fn term_str(t: u8) -> &'static str {
    match t % 3 {
        0 => "\n",
        1 => "\r\n",
        _ => "\r",
    }
}

impl Doc {
    /// the Lua text and the byte ranges of the uniquely named global reads, in text order
    pub fn render(&self) -> (String, Vec<Tok>) {
        let mut s = String::new();
        let mut toks = vec![];
        let mut k = 0usize;
        let mut name = |s: &mut String, toks: &mut Vec<Tok>| {
            let n = format!("G{k}");
            k += 1;
            let start = s.len();
            s.push_str(&n);
            toks.push(Tok { name: n, start, end: s.len() });
        };
        for (li, l) in self.lines.iter().enumerate() {
            for _ in 0..(l.indent % 4) {
                s.push(if l.indent >= 4 { '\t' } else { ' ' });
            }
            for seg in &l.segs {
                match seg {
                    Seg::Call(args) => {
                        name(&mut s, &mut toks);
                        s.push('(');
                        for (i, a) in args.iter().enumerate() {
                            if i > 0 {
                                s.push_str(", ");
                            }
                            match a {
                                Arg::Str(t) => {
                                    s.push('"');
                                    s.push_str(t);
                                    s.push('"');
                                }
                                Arg::Name => name(&mut s, &mut toks),
                            }
                        }
                        s.push(')');
                    }
                    Seg::LongComment(t) => {
                        s.push_str("--[[");
                        s.push_str(t);
                        s.push_str("]]");
                    }
                    Seg::LocalStr(t) => {
                        s.push_str("local _ = \"");
                        s.push_str(t);
                        s.push('"');
                    }
                    Seg::LongStr(ls) => {
                        s.push_str("local _ = [[");
                        for (t, term) in ls {
                            s.push_str(t);
                            s.push_str(term_str(*term));
                        }
                        s.push_str("]]");
                    }
                    Seg::LongCommentMulti(ls) => {
                        s.push_str("--[==[");
                        for (t, term) in ls {
                            s.push_str(t);
                            s.push_str(term_str(*term));
                        }
                        s.push_str("]==]");
                    }
                }
                s.push(' ');
            }
            if let Some(t) = &l.tail {
                s.push_str("--");
                s.push_str(t);
            }
            if li + 1 < self.lines.len() || self.trailing {
                s.push_str(term_str(l.term));
            }
        }
        (s, toks)
    }
}

/// text safe inside `"…"`, `--[[…]]`, `[[…]]` and `-- …`: no quote, backslash, bracket, terminator
fn filler(max: usize) -> impl Strategy<Value = String> {
    const SAFE_ASCII: &[char] = &['a', 'x', ' ', '1', '.', '-', '+', 'G'];
    const SAFE_BMP: &[char] = &['é', 'ß', '名', '字', '\u{301}', '\u{2028}', '\u{85}', '\u{ffff}'];
    (0u8..4, proptest::collection::vec((0u8..6, any::<u8>()), 0..=max)).prop_map(|(kind, cs)| {
        let mut out = String::new();
        for (a, i) in cs {
            let alpha = match kind {
                0 => 0,
                1 => [0, 0, 1, 1, 1, 0][a as usize],
                2 => [0, 1, 2, 2, 2, 2][a as usize],
                _ => [2, 2, 2, 2, 0, 1][a as usize],
            };
            out.push(match alpha {
                0 => SAFE_ASCII[i as usize % SAFE_ASCII.len()],
                1 => SAFE_BMP[i as usize % SAFE_BMP.len()],
                _ => ASTRAL[i as usize % ASTRAL.len()],
            });
        }
        // "G<digits>" inside filler could be mistaken for a generated name in a message; 'G' is only
        // ever followed by a non-digit here because '1' after 'G' is rewritten
        let mut fixed = String::new();
        let mut prev_g = false;
        for c in out.chars() {
            if prev_g && c.is_ascii_digit() {
                fixed.push('_');
            } else {
                fixed.push(c);
            }
            prev_g = c == 'G';
        }
        fixed
    })
}

fn arg() -> impl Strategy<Value = Arg> {
    prop_oneof![2 => filler(4).prop_map(Arg::Str), 3 => Just(Arg::Name)]
}

fn seg() -> impl Strategy<Value = Seg> {
    prop_oneof![
        6 => proptest::collection::vec(arg(), 0..4).prop_map(Seg::Call),
        2 => filler(5).prop_map(Seg::LongComment),
        2 => filler(5).prop_map(Seg::LocalStr),
        1 => proptest::collection::vec((filler(3), 0u8..3), 1..3).prop_map(Seg::LongStr),
        1 => proptest::collection::vec((filler(3), 0u8..3), 1..3).prop_map(Seg::LongCommentMulti),
    ]
}

pub fn doc(max_lines: usize) -> impl Strategy<Value = Doc> {
    let line = (0u8..8, proptest::collection::vec(seg(), 0..4), proptest::option::weighted(0.25, filler(4)), prop_oneof![5 => Just(0u8), 4 => Just(1u8), 1 => Just(2u8)])
        .prop_map(|(indent, segs, tail, term)| DocLine { indent, segs, tail, term });
    (proptest::collection::vec(line, 1..=max_lines), any::<bool>()).prop_map(|(mut lines, trailing)| {
        // at least one judged name: construct, don't reject
        if !lines.iter().any(|l| l.segs.iter().any(|s| matches!(s, Seg::Call(_)))) {
            if let Some(l) = lines.last_mut() {
                l.segs.push(Seg::Call(vec![]));
            }
        }
        Doc { lines, trailing }
    })
}
