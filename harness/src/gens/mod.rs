//! Shared generators (proptest strategies).
pub mod soup;
pub mod util;
pub mod history;
pub mod workspace;
