//! Shared generators (proptest strategies).
pub mod nesting;
pub mod flow_frag;
pub mod doc_types;
pub mod fmt_config;
pub mod fmt_input;
pub mod fmt_prog;
pub mod soup;
pub mod util;
pub mod paths;
pub mod texts;
pub mod lua_ast;
pub mod configs;
pub mod markup;
pub mod schemas;
pub mod scope_frag;
pub mod history;
pub mod workspace;
