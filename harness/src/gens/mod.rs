//! Shared generators (proptest strategies).
pub mod soup;
pub mod util;
pub mod markup;
pub mod schemas;
