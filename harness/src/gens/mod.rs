//! Shared generators (proptest strategies).
pub mod flow_frag;
pub mod soup;
pub mod util;
