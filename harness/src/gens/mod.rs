//! Shared generators (proptest strategies).
pub mod nesting;
pub mod soup;
pub mod util;
