//! Shared generators (proptest strategies).
pub mod soup;
pub mod util;
pub mod scope_frag;
