//! Shared generators (proptest strategies).
pub mod doc_types;
pub mod soup;
pub mod util;
