//! Shared generators (proptest strategies).
pub mod fmt_config;
pub mod fmt_input;
pub mod fmt_prog;
pub mod soup;
pub mod util;
