//! Compact generator of syntactically valid Lua programs for the formatter checks (C05–C07): every statement and
//! expression form, literals of every shape, comments in trivia positions, doc-comment blocks (incl. code fences)
//! before statements, constructs whose tokens would glue together if a space were dropped (`- -x`, `1 .. 2`,
//! `a[ [[s]] ]`, `a .. .5`), and statements starting with `(` after a `;`.
//!
//! Interface (kept small so that the AST-first generator `gens::lua_ast` can replace it later):
//! `program(tier) -> BoxedStrategy<String>`.  All choices are read from a proptest-generated tape of u16
//! (exhausted tape = choice 0 = the simplest alternative, so shrinking the tape shrinks the program).
use crate::engine::Tier;
use proptest::prelude::*;

pub struct Tape<'a> {
    data: &'a [u16],
    pos: usize,
}

impl<'a> Tape<'a> {
    pub fn new(data: &'a [u16]) -> Self {
        Tape { data, pos: 0 }
    }
    /// uniform-ish choice in 0..n; 0 when the tape is exhausted
    pub fn pick(&mut self, n: usize) -> usize {
        let v = self.data.get(self.pos).copied().unwrap_or(0);
        self.pos += 1;
        if n == 0 { 0 } else { (v as usize) % n }
    }
    pub fn chance(&mut self, num: usize, den: usize) -> bool {
        // exhausted tape => false
        let v = self.data.get(self.pos).copied().unwrap_or(u16::MAX);
        self.pos += 1;
        ((v as usize) % den) < num && v != u16::MAX
    }
    pub fn exhausted(&self) -> bool {
        self.pos >= self.data.len()
    }
}

#[derive(Clone, Copy)]
pub struct Feat {
    pub goto: bool,
    pub int_ops: bool, // // & | ~ << >>
    pub attrib: bool,
    pub global: bool,
    pub jit_nums: bool,
}

impl Feat {
    pub fn of_level(level: u8) -> Feat {
        // indices as gens::util::level: 0=5.5 1=5.4 2=5.3 3=5.2 4=5.1 5..7=LuaJIT*
        let l = level % 8;
        Feat { goto: l != 4, int_ops: l <= 2, attrib: l <= 1, global: l == 0, jit_nums: l >= 5 }
    }
}

const NAMES: &[&str] = &["a", "b", "x", "foo", "self", "t", "value", "cfg", "i", "k", "v", "M", "long_identifier_name", "é名"];
const FIELDS: &[&str] = &["x", "name", "items", "on_event", "n", "__index", "longer_field_name"];
const NUMS: &[&str] = &["1", "0", "42", "3.14", "0x10", "1e10", ".5", "3.", "0xA.8p1", "1e-3", "0xff", "100000000000000", "2^53", "0x.1p-2"];
const JIT_NUMS: &[&str] = &["0LL", "12i", "0x1ULL", "1ull"];
const STRS: &[&str] = &[
    "\"s\"", "'s'", "\"\"", "''", "\"it's\"", "'say \"hi\"'", "\"a\\nb\"", "'\\''", "\"\\\"\"", "\"\\\\\"", "'\\\\'", "\"a\\\\'b\"", "[[long]]", "[==[lo]]ng]==]",
    "[[\nmulti\n  line\n]]", "\"a longer string literal used to push lines over the width limit\"", "'\\z\n   x'", "\"\\u{48}\\x41\\065\"", "\"tab\\there\"", "'名'", "[=[\r\nx]=]",
    "\"-- not a comment\"", "\"]]\"", "'\\\n'",
];
const BINOPS: &[&str] = &["+", "-", "*", "/", "%", "^", "..", "==", "~=", "<", "<=", ">", ">=", "and", "or"];
const INT_BINOPS: &[&str] = &["//", "&", "|", "~", "<<", ">>"];
const PLAIN_COMMENTS: &[&str] = &[
    "-- c", "--c", "--  two spaces", "--[[ long ]]", "--[==[ lo]]ng ]==]", "-- trailing words here", "--- not a tag", "--[[\n  multi\n    line\n]]", "--", "---",
    "-- 名", "--[[@as string]]", "--\tTab", "-------------", "--!strict", "-- TODO: x   y",
];
const DOC_LINES: &[&str] = &[
    "---@class A", "---@class A: B, C", "---@class A<T>", "---@field x integer", "---@field name string # the name", "---@field [string] any",
    "---@field public on_event fun(self: A, e: string): boolean?", "---@param a string", "---@param b? integer the count", "---@param ... any",
    "--- @param x  number  spaced", "---@param chunk (fun(...: any): string) | Language<\"Lua\">", "---@param f fun(a: integer, b: string): boolean", "---@return integer",
    "---@return string? name, integer code # desc", "---@type A", "---@type table<string, integer[]>", "---@type { a: integer, b?: string }", "---@alias Id string|integer",
    "---@alias Mode\n---| 'r' # read\n---| 'w' # write mode\n---| \"a\"", "---@generic T", "---@generic K, V: table", "---@overload fun(a: integer): string", "---@enum E",
    "---@cast a +string", "---@diagnostic disable-next-line: unused-local", "---@operator add(A): A", "---@see foo#bar", "---@deprecated use other", "---@async",
    "---@nodiscard", "---@private", "---@version >5.3", "---@meta", "---@module 'm'", "---@as string", "--- plain description", "---no space description",
    "---   indented   description", "--- ```lua\n--- local t = { 1,\n---   2 }\n---   if x then y() end\n--- ```", "---```\n---  code\n---```", "--- * bullet\n---   continued",
    "---@param a string|integer   # aligned\n---@param longer_name boolean # other", "---@return A | B | nil", "---@type fun(): (integer, string)", "---@field a (string|integer)[]",
    "---@type [integer, string]", "---@type A.B.C", "---@type 'lit' | \"dq\" | 1 | true", "---@param t { [string]: integer }", "---@type `T`", "---@param a T...",
    "---", "--- @class  Spaced : Base", "---@type string[]?", "---@readonly", "---@source file.lua:1", "---@namespace N", "---@using N", "---@return_cast a string",
    "---| 'x'", "---@field private [1] string", "---@class (partial) P", "---@type table<K, V>  |V[]|{[K]: V }", "---@param cb async fun(x)", "---@type keyof A",
    "--[[@type integer]]", "---@type integer @ desc", "---@param a string text -- dashes", "---@language lua",
];

struct Gen<'a> {
    t: Tape<'a>,
    out: String,
    feat: Feat,
    indent: usize,
    /// trivia liveliness: 0 = canonical single spaces, 1 = random whitespace, 2 = + comments inside statements
    trivia: u8,
    in_loop: u32,
    vararg: bool,
    budget: i32,
    labels: u32,
}

impl<'a> Gen<'a> {
    fn name(&mut self) -> &'static str {
        NAMES[self.t.pick(NAMES.len())]
    }
    fn field(&mut self) -> &'static str {
        FIELDS[self.t.pick(FIELDS.len())]
    }
    fn tok(&mut self, s: &str) {
        self.out.push_str(s);
    }
    fn nl(&mut self) {
        self.out.push('\n');
        for _ in 0..self.indent {
            self.out.push_str("  ");
        }
    }
    /// gap between two tokens where whitespace is required or harmless
    fn sp(&mut self) {
        if self.trivia == 0 {
            self.out.push(' ');
            return;
        }
        let max = if self.trivia >= 2 { 40 } else { 34 };
        match self.t.pick(max) {
            0..=24 => self.out.push(' '),
            25..=26 => self.out.push_str("  "),
            27 => self.out.push('\t'),
            28..=30 => self.nl(),
            31 => {
                self.out.push('\n');
                self.nl()
            }
            32 => self.out.push_str("    "),
            33 => self.out.push_str(" \n"),
            34..=35 => {
                self.out.push(' ');
                let c = PLAIN_COMMENTS[self.t.pick(PLAIN_COMMENTS.len())];
                self.out.push_str(c);
                if c.starts_with("--[") && c.ends_with(']') {
                    self.out.push(' ');
                } else {
                    self.nl();
                }
            }
            36 => {
                self.out.push_str(" --[[ c ]] ");
            }
            37 => {
                self.nl();
                self.out.push_str("-- own line");
                self.nl();
            }
            _ => self.out.push(' '),
        }
    }
    /// gap where no whitespace is needed (around punctuation): mostly empty
    fn opt(&mut self) {
        if self.trivia == 0 {
            return;
        }
        match self.t.pick(12) {
            0..=7 => {}
            8..=9 => self.out.push(' '),
            10 => self.nl(),
            _ => self.sp(),
        }
    }

    fn number(&mut self) {
        if self.feat.jit_nums && self.t.chance(1, 8) {
            let s = JIT_NUMS[self.t.pick(JIT_NUMS.len())];
            self.tok(s);
        } else {
            let s = NUMS[self.t.pick(NUMS.len())];
            if s == "2^53" {
                self.tok("2");
                self.opt();
                self.tok("^");
                self.opt();
                self.tok("53");
            } else {
                self.tok(s);
            }
        }
    }
    fn string(&mut self) {
        let s = STRS[self.t.pick(STRS.len())];
        self.tok(s);
    }

    fn args(&mut self, depth: u32) {
        match self.t.pick(10) {
            0..=6 => {
                self.tok("(");
                self.opt();
                let n = self.t.pick(5);
                for i in 0..n {
                    if i > 0 {
                        self.tok(",");
                        self.sp();
                    }
                    self.expr(depth + 1);
                }
                self.opt();
                self.tok(")");
            }
            7 => {
                if self.t.chance(1, 2) {
                    self.out.push(' ');
                }
                self.string();
            }
            8 => {
                self.opt();
                self.table(depth + 1);
            }
            _ => {
                self.tok("(");
                self.string();
                self.tok(")");
            }
        }
    }

    /// prefix expression: name, index chains, calls, paren
    fn prefix(&mut self, depth: u32, want_call: bool, allow_paren_start: bool) {
        // head
        if allow_paren_start && depth < 4 && self.t.chance(1, 10) {
            self.tok("(");
            self.opt();
            self.expr(depth + 1);
            self.opt();
            self.tok(")");
        } else {
            let n = self.name();
            self.tok(n);
        }
        let segs = self.t.pick(5);
        let mut last_call = false;
        for _ in 0..segs {
            last_call = false;
            match self.t.pick(8) {
                0..=2 => {
                    self.opt();
                    self.tok(".");
                    self.opt();
                    let f = self.field();
                    self.tok(f);
                }
                3 => {
                    self.tok("[");
                    self.opt();
                    if self.t.chance(1, 12) {
                        // long-string key: `a[ [[k]] ]` – the space is required
                        if !self.out.ends_with(' ') && !self.out.ends_with('\n') {
                            self.out.push(' ');
                        }
                        self.tok("[[k]]");
                        self.out.push(' ');
                    } else {
                        self.expr(depth + 1);
                    }
                    self.opt();
                    self.tok("]");
                }
                4..=5 => {
                    self.args(depth);
                    last_call = true;
                }
                _ => {
                    self.opt();
                    self.tok(":");
                    let f = self.field();
                    self.tok(f);
                    self.args(depth);
                    last_call = true;
                }
            }
        }
        if want_call && !last_call {
            if self.t.chance(1, 3) {
                self.tok(":");
                let f = self.field();
                self.tok(f);
            }
            self.args(depth);
        }
    }

    fn table(&mut self, depth: u32) {
        self.tok("{");
        let n = if depth >= 4 { 0 } else { self.t.pick(6) };
        let multiline = self.t.chance(1, 4);
        let style = self.t.pick(4); // 0 array 1 keyed 2 mixed 3 bracket keys
        if multiline {
            self.indent += 1;
        }
        for i in 0..n {
            if multiline {
                self.nl();
            } else {
                self.opt();
            }
            let keyed = match style {
                0 => false,
                1 | 3 => true,
                _ => self.t.chance(1, 2),
            };
            if keyed {
                if style == 3 && self.t.chance(1, 2) {
                    self.tok("[");
                    if self.t.chance(1, 12) {
                        self.tok(" [[k]] ");
                    } else {
                        self.opt();
                        self.expr(depth + 2);
                        self.opt();
                    }
                    self.tok("]");
                } else {
                    let f = self.field();
                    self.tok(f);
                }
                // extra spaces after `=` signal alignment intent to the formatter
                match self.t.pick(4) {
                    0 => self.tok(" = "),
                    1 => self.tok("   =   "),
                    2 => self.tok("="),
                    _ => {
                        self.sp();
                        self.tok("=");
                        self.sp();
                    }
                }
            }
            self.expr(depth + 1);
            let last = i + 1 == n;
            if !last || self.t.chance(1, 3) {
                self.opt();
                let semi = self.t.chance(1, 6);
                self.tok(if semi { ";" } else { "," });
            }
            if self.t.chance(1, 6) {
                self.tok(" -- field comment");
                if !multiline {
                    self.nl();
                }
            }
        }
        if multiline {
            self.indent -= 1;
            self.nl();
        } else {
            self.opt();
        }
        self.tok("}");
    }

    fn closure(&mut self, depth: u32) {
        self.tok("function");
        self.opt();
        let saved = (self.vararg, self.in_loop);
        self.params();
        self.in_loop = 0;
        if self.t.chance(1, 2) {
            // simple lambda on one line
            self.out.push(' ');
            self.tok("return");
            self.out.push(' ');
            self.expr(depth + 1);
            self.out.push(' ');
        } else {
            self.body(depth + 1);
        }
        self.tok("end");
        self.vararg = saved.0;
        self.in_loop = saved.1;
    }

    fn params(&mut self) {
        self.tok("(");
        self.opt();
        let n = self.t.pick(4);
        for i in 0..n {
            if i > 0 {
                self.tok(",");
                self.sp();
            }
            let nm = self.name();
            self.tok(nm);
            if self.trivia >= 2 && self.t.chance(1, 10) {
                self.tok(" -- param comment");
                self.nl();
            }
        }
        self.vararg = self.t.chance(1, 4);
        if self.vararg {
            if n > 0 {
                self.tok(",");
                self.sp();
            }
            self.tok("...");
        }
        self.opt();
        self.tok(")");
    }

    fn expr(&mut self, depth: u32) {
        self.budget -= 1;
        let leaf = depth >= 4 || self.budget <= 0;
        let c = if leaf { self.t.pick(8) } else { self.t.pick(22) };
        match c {
            0 => {
                let n = self.name();
                self.tok(n)
            }
            1 => self.number(),
            2 => self.string(),
            3 => self.tok("nil"),
            4 => self.tok("true"),
            5 => self.tok("false"),
            6 => {
                if self.vararg {
                    self.tok("...")
                } else {
                    self.number()
                }
            }
            7 => {
                let n = self.name();
                self.tok(n);
                self.tok(".");
                let f = self.field();
                self.tok(f);
            }
            8..=11 => {
                // binary, possibly a same-operator chain
                let ops: Vec<&'static str> = if self.feat.int_ops && self.t.chance(1, 5) { INT_BINOPS.to_vec() } else { BINOPS.to_vec() };
                let op = ops[self.t.pick(ops.len())];
                let n = 1 + self.t.pick(4);
                self.expr(depth + 1);
                for _ in 0..n {
                    let op2 = if self.t.chance(2, 3) { op } else { ops[self.t.pick(ops.len())] };
                    // a space is required around word operators and where tokens would glue (`1 ..`, `- -`, `.. .5`, `< <`)
                    self.out.push(' ');
                    if self.trivia > 0 && self.t.chance(1, 6) {
                        self.sp();
                    }
                    self.tok(op2);
                    self.out.push(' ');
                    if self.trivia > 0 && self.t.chance(1, 6) {
                        self.sp();
                    }
                    self.expr(depth + 1);
                }
            }
            12 => {
                // unary, incl. nested (`- -x`, `not not x`, `~ ~x`)
                let ops: &[&str] = if self.feat.int_ops { &["-", "not", "#", "~"] } else { &["-", "not", "#"] };
                let n = 1 + self.t.pick(3);
                for _ in 0..n {
                    let op = ops[self.t.pick(ops.len())];
                    self.tok(op);
                    self.out.push(' ');
                }
                self.expr(depth + 1);
            }
            13 => {
                self.tok("(");
                self.opt();
                self.expr(depth + 1);
                self.opt();
                self.tok(")");
            }
            14..=15 => self.table(depth),
            16 => self.closure(depth),
            17..=19 => self.prefix(depth, self.budget % 2 == 0, true),
            20 => {
                // fluent chain
                let n = self.name();
                self.tok(n);
                let k = 2 + self.t.pick(4);
                for _ in 0..k {
                    if self.trivia > 0 && self.t.chance(1, 4) {
                        self.indent += 1;
                        self.nl();
                        self.indent -= 1;
                    }
                    self.tok(":");
                    let f = self.field();
                    self.tok(f);
                    self.args(depth + 1);
                }
            }
            _ => {
                // concat of number-ish operands: gluing hazards
                self.number();
                self.tok(" .. ");
                if self.t.chance(1, 2) {
                    self.number()
                } else if self.vararg {
                    self.tok("...")
                } else {
                    self.string()
                }
            }
        }
    }

    fn exprlist(&mut self, max: usize, depth: u32) {
        let n = 1 + self.t.pick(max);
        for i in 0..n {
            if i > 0 {
                self.tok(",");
                self.sp();
            }
            self.expr(depth);
        }
    }

    fn doc_block(&mut self) {
        let n = 1 + self.t.pick(4);
        for _ in 0..n {
            let l = DOC_LINES[self.t.pick(DOC_LINES.len())];
            // multi-line entries keep the current indentation
            let mut first = true;
            for part in l.split('\n') {
                if !first {
                    self.nl();
                }
                first = false;
                self.tok(part);
            }
            self.nl();
        }
    }

    fn body(&mut self, depth: u32) {
        self.indent += 1;
        let n = if depth >= 3 { self.t.pick(2) } else { self.t.pick(4) };
        self.block(n, depth);
        self.indent -= 1;
        self.nl();
    }

    /// `n` statements, each on its own line (or `;`/space separated), optional final return/break
    fn block(&mut self, n: usize, depth: u32) {
        for _ in 0..n {
            self.nl();
            if self.t.chance(1, 8) {
                // blank lines
                for _ in 0..self.t.pick(4) {
                    self.out.push('\n');
                }
                self.nl();
            }
            if self.t.chance(1, 5) {
                self.doc_block();
            } else if self.t.chance(1, 8) {
                let c = PLAIN_COMMENTS[self.t.pick(PLAIN_COMMENTS.len())];
                self.tok(c);
                self.nl();
            }
            self.stat(depth);
            match self.t.pick(12) {
                0 => self.tok(";"),
                1 => self.tok(" ;"),
                2 => {
                    let c = PLAIN_COMMENTS[self.t.pick(6)];
                    self.tok(" ");
                    self.tok(c);
                }
                3 => {
                    self.tok("; -- after semi");
                }
                _ => {}
            }
        }
        // final statement
        match self.t.pick(10) {
            0 | 1 => {
                self.nl();
                self.tok("return");
                if self.t.chance(3, 4) {
                    self.out.push(' ');
                    self.exprlist(3, depth + 1);
                }
                if self.t.chance(1, 4) {
                    self.tok(";");
                }
            }
            2 if self.in_loop > 0 => {
                self.nl();
                self.tok("break");
            }
            _ => {}
        }
    }

    fn stat(&mut self, depth: u32) {
        self.budget -= 2;
        let simple = depth >= 3 || self.budget <= 0;
        let c = if simple { self.t.pick(9) } else { self.t.pick(24) };
        match c {
            0 | 1 => {
                // local
                self.tok("local");
                self.sp();
                let n = 1 + self.t.pick(3);
                for i in 0..n {
                    if i > 0 {
                        self.tok(",");
                        self.sp();
                    }
                    let nm = self.name();
                    self.tok(nm);
                    if self.feat.attrib && self.t.chance(1, 8) {
                        let close = self.t.chance(1, 3);
                        self.tok(if close { " <close>" } else { " <const>" });
                    }
                }
                if self.t.chance(5, 6) {
                    self.sp();
                    self.tok("=");
                    self.sp();
                    self.exprlist(3, depth + 1);
                }
            }
            2 | 3 => {
                // assignment
                let n = 1 + self.t.pick(2);
                for i in 0..n {
                    if i > 0 {
                        self.tok(",");
                        self.sp();
                    }
                    let nm = self.name();
                    self.tok(nm);
                    match self.t.pick(4) {
                        0 => {}
                        1 | 2 => {
                            self.tok(".");
                            let f = self.field();
                            self.tok(f);
                        }
                        _ => {
                            self.tok("[");
                            self.expr(depth + 2);
                            self.tok("]");
                        }
                    }
                }
                // aligned `=` intent
                match self.t.pick(4) {
                    0 => self.tok("    = "),
                    1 => self.tok("="),
                    _ => {
                        self.sp();
                        self.tok("=");
                        self.sp();
                    }
                }
                self.exprlist(3, depth + 1);
            }
            4..=6 => self.prefix(depth + 1, true, false),
            7 => {
                // statement starting with `(`: must be separated by `;` from the previous one
                self.tok(";");
                self.tok("(");
                self.expr(depth + 2);
                self.tok(")");
                if self.t.chance(1, 2) {
                    self.tok(":");
                    let f = self.field();
                    self.tok(f);
                }
                self.args(depth + 1);
            }
            8 => {
                if self.feat.goto && self.t.chance(1, 2) {
                    self.labels += 1;
                    let l = format!("l{}", self.labels);
                    self.tok("goto");
                    self.sp();
                    self.tok(&l);
                    self.nl();
                    self.tok("::");
                    self.opt();
                    self.tok(&l);
                    self.opt();
                    self.tok("::");
                } else {
                    self.tok(";");
                }
            }
            9 => {
                self.tok("do");
                self.body(depth + 1);
                self.tok("end");
            }
            10 => {
                self.tok("while");
                self.sp();
                self.expr(depth + 1);
                self.sp();
                self.tok("do");
                self.in_loop += 1;
                self.body(depth + 1);
                self.in_loop -= 1;
                self.tok("end");
            }
            11 => {
                self.tok("repeat");
                self.in_loop += 1;
                self.body(depth + 1);
                self.in_loop -= 1;
                self.tok("until");
                self.sp();
                self.expr(depth + 1);
            }
            12..=14 => {
                self.tok("if");
                self.sp();
                self.expr(depth + 1);
                self.sp();
                self.tok("then");
                if self.t.chance(1, 5) {
                    // one-line if
                    self.out.push(' ');
                    self.prefix(depth + 2, true, false);
                    self.out.push(' ');
                    self.tok("end");
                    return;
                }
                self.body(depth + 1);
                for _ in 0..self.t.pick(3) {
                    self.tok("elseif");
                    self.sp();
                    self.expr(depth + 1);
                    self.sp();
                    self.tok("then");
                    self.body(depth + 1);
                }
                if self.t.chance(1, 2) {
                    self.tok("else");
                    self.body(depth + 1);
                }
                self.tok("end");
            }
            15 => {
                self.tok("for");
                self.sp();
                let nm = self.name();
                self.tok(nm);
                self.sp();
                self.tok("=");
                self.sp();
                self.expr(depth + 2);
                self.tok(",");
                self.sp();
                self.expr(depth + 2);
                if self.t.chance(1, 3) {
                    self.tok(",");
                    self.sp();
                    self.expr(depth + 2);
                }
                self.sp();
                self.tok("do");
                self.in_loop += 1;
                self.body(depth + 1);
                self.in_loop -= 1;
                self.tok("end");
            }
            16 => {
                self.tok("for");
                self.sp();
                let n = 1 + self.t.pick(3);
                for i in 0..n {
                    if i > 0 {
                        self.tok(",");
                        self.sp();
                    }
                    let nm = self.name();
                    self.tok(nm);
                }
                self.sp();
                self.tok("in");
                self.sp();
                self.exprlist(2, depth + 2);
                self.sp();
                self.tok("do");
                self.in_loop += 1;
                self.body(depth + 1);
                self.in_loop -= 1;
                self.tok("end");
            }
            17..=19 => {
                // function statement
                let local = self.t.chance(1, 3);
                if local {
                    self.tok("local");
                    self.sp();
                }
                self.tok("function");
                self.sp();
                let nm = self.name();
                self.tok(nm);
                if !local {
                    for _ in 0..self.t.pick(3) {
                        self.tok(".");
                        let f = self.field();
                        self.tok(f);
                    }
                    if self.t.chance(1, 3) {
                        self.tok(":");
                        let f = self.field();
                        self.tok(f);
                    }
                }
                self.opt();
                let saved = (self.vararg, self.in_loop);
                self.params();
                self.in_loop = 0;
                self.body(depth + 1);
                self.tok("end");
                self.vararg = saved.0;
                self.in_loop = saved.1;
            }
            20 => {
                if self.feat.global {
                    self.tok("global");
                    self.sp();
                    if self.t.chance(1, 3) {
                        self.tok("function");
                        self.sp();
                        let nm = self.name();
                        self.tok(nm);
                        self.tok("()");
                        self.body(depth + 1);
                        self.tok("end");
                    } else {
                        let nm = self.name();
                        self.tok(nm);
                        if self.t.chance(1, 2) {
                            self.tok(" = ");
                            self.expr(depth + 2);
                        }
                    }
                } else {
                    self.tok("local");
                    self.sp();
                    let nm = self.name();
                    self.tok(nm);
                }
            }
            21 => {
                // long line built from a call with many short arguments (straddles the width limit often)
                let nm = self.name();
                self.tok(nm);
                self.tok("(");
                let n = 3 + self.t.pick(14);
                for i in 0..n {
                    if i > 0 {
                        self.tok(", ");
                    }
                    let a = self.name();
                    self.tok(a);
                    if self.t.chance(1, 3) {
                        self.tok(".");
                        let f = self.field();
                        self.tok(f);
                    }
                }
                self.tok(")");
            }
            22 => {
                // local with a table or closure value
                self.tok("local");
                self.out.push(' ');
                let nm = self.name();
                self.tok(nm);
                self.tok(" = ");
                if self.t.chance(1, 2) {
                    self.table(depth + 1)
                } else {
                    self.closure(depth + 1)
                }
            }
            _ => {
                // consecutive assignments (alignment groups)
                let n = 2 + self.t.pick(3);
                for i in 0..n {
                    if i > 0 {
                        self.nl();
                    }
                    let nm = self.name();
                    self.tok(nm);
                    self.tok(".");
                    let f = self.field();
                    self.tok(f);
                    let wide = self.t.chance(1, 2);
                    self.tok(if wide { "   = " } else { " = " });
                    self.expr(depth + 2);
                    if self.t.chance(1, 3) {
                        self.tok("  -- aligned comment");
                    }
                }
            }
        }
    }
}

/// deterministic rendering of a tape into a program
pub fn render(tape: &[u16], level: u8, trivia: u8, max_stats: usize) -> String {
    let mut g = Gen { t: Tape::new(tape), out: String::new(), feat: Feat::of_level(level), indent: 0, trivia, in_loop: 0, vararg: true, budget: 400, labels: 0 };
    if g.t.chance(1, 30) {
        g.out.push_str("#!/usr/bin/lua\n");
    }
    let n = 1 + g.t.pick(max_stats);
    g.block(n, 0);
    if !g.t.chance(1, 6) {
        g.out.push('\n');
    }
    // the leading newline produced by block() is dropped most of the time
    let s = g.out;
    if s.starts_with('\n') && tape.first().map(|x| x % 5 != 0).unwrap_or(true) { s[1..].to_string() } else { s }
}

/// (program text, level index used for feature gating)
pub fn program_at(tier: Tier, level: u8) -> BoxedStrategy<String> {
    let max = tier.pick(400, 1500);
    (proptest::collection::vec(any::<u16>(), 0..max), 0u8..3, 1usize..10).prop_map(move |(tape, trivia, n)| render(&tape, level, trivia, n)).boxed()
}

pub fn program(tier: Tier) -> BoxedStrategy<(String, u8)> {
    (0u8..8).prop_flat_map(move |level| program_at(tier, level).prop_map(move |s| (s, level))).boxed()
}
