//! AST-first Lua program generator (DESIGN §2.2 row `lua_ast`).
//!
//! * [`program`]`(level, size)` – proptest strategy producing a serde-serialisable [`Program`] that is
//!   valid *by construction* for the chosen [`Level`] (written from the reference manuals' grammar plus the
//!   compile-time rules of the reference compilers: break/goto/label visibility, `<const>`/`<close>`,
//!   `...` only in vararg functions, 5.1 "last statement" and "ambiguous call" rules, …).
//! * [`render`]`(&Program, &Layout)` – text in a selectable layout, recording the byte range of every token.
//! * [`valid_lua`]`(level, tier)` – convenience strategy of rendered texts.
//! * [`sanitize`] – validate-and-repair pass (idempotent on valid programs); every strategy output went
//!   through it, and [`simplify`] candidates are re-sanitized so that they stay valid.
//!
//! Generation is "typed strategies + repair": the strategies are context free (good shrinking), the
//! context-dependent rules (goto targets, break inside loops, `...`) are enforced by `sanitize`, which
//! replaces an offending node by a harmless one instead of rejecting the case.
#![allow(dead_code)]

use crate::engine::Tier;
use proptest::prelude::*;
use proptest::strategy::Union;
use serde::{Deserialize, Serialize};

// ------------------------------------------------------------------------------------------------
// language levels
// ------------------------------------------------------------------------------------------------

#[derive(Clone, Copy, Debug, PartialEq, Eq, Hash, Serialize, Deserialize)]
pub enum Level {
    Lua51,
    Lua52,
    Lua53,
    Lua54,
    Lua55,
    /// standard LuaJIT 2.1 syntax (5.1 grammar + goto/labels + 5.2 escapes + `LL`/`ULL`/`i` numbers); none of
    /// the analyzer's non-standard "LuaJIT extension" operators is generated
    LuaJIT,
}

#[derive(Clone, Copy, Debug)]
pub struct Feats {
    pub goto: bool,
    pub bitops: bool,
    pub idiv: bool,
    pub attribs: bool,
    pub globals: bool,
    pub named_vararg: bool,
    /// `;` as a statement of its own (5.2+)
    pub empty_stat: bool,
    /// `break` may be followed by other statements (5.2+)
    pub break_anywhere: bool,
    pub hex_float: bool,
    /// `\xHH` and `\z`
    pub esc_xz: bool,
    /// largest code point of `\u{…}` (0 = escape not available)
    pub esc_u_max: u32,
    pub esc_u_surrogates: bool,
    /// 5.1: a backslash followed by any other character stands for that character
    pub lenient_esc: bool,
    pub jit_numbers: bool,
    /// `[[` may occur inside a level-0 long bracket (an error in 5.1)
    pub nested_long0: bool,
    /// a call's `(` may start a new line (5.1 and LuaJIT report "ambiguous syntax")
    pub newline_before_call_paren: bool,
}

impl Level {
    pub const ALL: [Level; 6] = [Level::Lua51, Level::Lua52, Level::Lua53, Level::Lua54, Level::Lua55, Level::LuaJIT];

    pub fn name(self) -> &'static str {
        match self {
            Level::Lua51 => "5.1",
            Level::Lua52 => "5.2",
            Level::Lua53 => "5.3",
            Level::Lua54 => "5.4",
            Level::Lua55 => "5.5",
            Level::LuaJIT => "LuaJIT",
        }
    }

    /// index accepted by `gens::util::level()` of the analyzer level with the same meaning
    pub fn parser_level(self) -> u8 {
        match self {
            Level::Lua55 => 0,
            Level::Lua54 => 1,
            Level::Lua53 => 2,
            Level::Lua52 => 3,
            Level::Lua51 => 4,
            Level::LuaJIT => 6, // LuaJIT2 = plain LuaJIT syntax
        }
    }

    /// all analyzer levels (indices of `gens::util::level()`) under which a program of this level must be accepted:
    /// plain LuaJIT source is also valid input for the two extended LuaJIT levels
    pub fn parser_levels(self) -> &'static [u8] {
        match self {
            Level::Lua55 => &[0],
            Level::Lua54 => &[1],
            Level::Lua53 => &[2],
            Level::Lua52 => &[3],
            Level::Lua51 => &[4],
            Level::LuaJIT => &[6, 5, 7],
        }
    }

    pub fn feats(self) -> Feats {
        let base = Feats {
            goto: false,
            bitops: false,
            idiv: false,
            attribs: false,
            globals: false,
            named_vararg: false,
            empty_stat: false,
            break_anywhere: false,
            hex_float: false,
            esc_xz: false,
            esc_u_max: 0,
            esc_u_surrogates: false,
            lenient_esc: false,
            jit_numbers: false,
            nested_long0: true,
            newline_before_call_paren: true,
        };
        let l52 = Feats { goto: true, empty_stat: true, break_anywhere: true, hex_float: true, esc_xz: true, ..base };
        let l53 = Feats { bitops: true, idiv: true, esc_u_max: 0x10FFFF, esc_u_surrogates: true, ..l52 };
        let l54 = Feats { attribs: true, esc_u_max: 0x7FFF_FFFF, ..l53 };
        match self {
            Level::Lua51 => Feats { lenient_esc: true, nested_long0: false, newline_before_call_paren: false, ..base },
            Level::Lua52 => l52,
            Level::Lua53 => l53,
            Level::Lua54 => l54,
            Level::Lua55 => Feats { globals: true, named_vararg: true, ..l54 },
            Level::LuaJIT => Feats {
                goto: true,
                hex_float: true,
                esc_xz: true,
                esc_u_max: 0x10FFFF,
                jit_numbers: true,
                newline_before_call_paren: false,
                ..base
            },
        }
    }
}

/// Feature mask: callers can switch whole families of forms off (bit set = allowed).
#[derive(Clone, Copy, Debug, PartialEq, Eq, Serialize, Deserialize)]
pub struct Mask(pub u32);

impl Mask {
    pub const GOTO: u32 = 1 << 0;
    pub const ATTRIBS: u32 = 1 << 1;
    pub const GLOBAL_DECL: u32 = 1 << 2;
    pub const VARARG: u32 = 1 << 3;
    pub const METHODS: u32 = 1 << 4;
    pub const LONG_BRACKETS: u32 = 1 << 5;
    pub const ESCAPES: u32 = 1 << 6;
    pub const NUM_CORNERS: u32 = 1 << 7;
    pub const BITOPS: u32 = 1 << 8;
    pub const CLOSURES: u32 = 1 << 9;
    pub const NON_ASCII: u32 = 1 << 10;
    /// soft-keyword look-alikes used as ordinary names (`continue`, `const`, `global`, `goto` at 5.1)
    pub const ODD_NAMES: u32 = 1 << 11;
    /// 5.1 only: backslash followed by a character that later versions reject (`\q`)
    pub const LENIENT_ESCAPES: u32 = 1 << 12;
    pub const ALL: Mask = Mask(u32::MAX);
    pub fn has(self, bit: u32) -> bool {
        self.0 & bit != 0
    }
    pub fn without(self, bits: u32) -> Mask {
        Mask(self.0 & !bits)
    }
}

// ------------------------------------------------------------------------------------------------
// AST
// ------------------------------------------------------------------------------------------------

#[derive(Clone, Debug, PartialEq, Serialize, Deserialize)]
pub struct Program {
    pub level: Level,
    /// 5.5 only: the chunk starts with explicit `global` declarations of every free name (strict mode);
    /// `prologue` is recomputed by `sanitize` from the names the program uses and `prologue_style`
    pub strict_globals: bool,
    pub prologue_style: u8,
    pub prologue: Vec<Stat>,
    pub block: Block,
}

#[derive(Clone, Debug, Default, PartialEq, Serialize, Deserialize)]
pub struct Block {
    pub stats: Vec<Stat>,
    pub ret: Option<Return>,
}

#[derive(Clone, Debug, PartialEq, Serialize, Deserialize)]
pub struct Return {
    pub exprs: Vec<Expr>,
    pub semi: bool,
}

#[derive(Clone, Copy, Debug, PartialEq, Eq, Serialize, Deserialize)]
pub enum Attrib {
    Const,
    Close,
}

#[derive(Clone, Debug, PartialEq, Serialize, Deserialize)]
pub struct FuncName {
    pub base: String,
    pub path: Vec<String>,
    pub method: Option<String>,
}

#[derive(Clone, Debug, PartialEq, Serialize, Deserialize)]
pub enum Vararg {
    Plain,
    /// 5.5 `...name`
    Named(String),
}

#[derive(Clone, Debug, PartialEq, Serialize, Deserialize)]
pub struct FuncBody {
    pub params: Vec<String>,
    pub vararg: Option<Vararg>,
    pub body: Block,
}

#[derive(Clone, Debug, PartialEq, Serialize, Deserialize)]
pub enum Stat {
    /// `;`
    Empty,
    Assign { targets: Vec<Expr>, values: Vec<Expr> },
    /// the expression is a `Call` or `Method`
    Call(Expr),
    Label(u16),
    Goto(u16),
    Break,
    Do(Block),
    While { cond: Expr, body: Block },
    Repeat { body: Block, cond: Expr },
    If { cond: Expr, then: Block, elseifs: Vec<(Expr, Block)>, els: Option<Block> },
    NumFor { var: String, start: Expr, stop: Expr, step: Option<Expr>, body: Block },
    GenFor { vars: Vec<String>, exprs: Vec<Expr>, body: Block },
    Function { name: FuncName, body: FuncBody },
    LocalFunction { name: String, body: FuncBody },
    /// `local [<attr>] n1 [<attr>], … [= values]` (the prefix attribute is 5.5 syntax)
    Local { prefix: Option<Attrib>, names: Vec<(String, Option<Attrib>)>, values: Vec<Expr> },
    /// 5.5 `global [<attr>] n1 [<attr>], … [= values]`
    Global { prefix: Option<Attrib>, names: Vec<(String, Option<Attrib>)>, values: Vec<Expr> },
    /// 5.5 `global [<const>] *`
    GlobalAll { attrib: Option<Attrib> },
    /// 5.5 `global function name body`
    GlobalFunction { name: String, body: FuncBody },
}

#[derive(Clone, Copy, Debug, PartialEq, Eq, Serialize, Deserialize)]
pub enum BinOp {
    Or,
    And,
    Lt,
    Gt,
    Le,
    Ge,
    Ne,
    Eq,
    BOr,
    BXor,
    BAnd,
    Shl,
    Shr,
    Concat,
    Add,
    Sub,
    Mul,
    Div,
    IDiv,
    Mod,
    Pow,
}

#[derive(Clone, Copy, Debug, PartialEq, Eq, Serialize, Deserialize)]
pub enum UnOp {
    Neg,
    Not,
    Len,
    BNot,
}

impl BinOp {
    pub fn text(self) -> &'static str {
        use BinOp::*;
        match self {
            Or => "or",
            And => "and",
            Lt => "<",
            Gt => ">",
            Le => "<=",
            Ge => ">=",
            Ne => "~=",
            Eq => "==",
            BOr => "|",
            BXor => "~",
            BAnd => "&",
            Shl => "<<",
            Shr => ">>",
            Concat => "..",
            Add => "+",
            Sub => "-",
            Mul => "*",
            Div => "/",
            IDiv => "//",
            Mod => "%",
            Pow => "^",
        }
    }
    /// precedence of the reference manual (higher binds tighter); unary operators sit at 12
    pub fn prec(self) -> u8 {
        use BinOp::*;
        match self {
            Or => 1,
            And => 2,
            Lt | Gt | Le | Ge | Ne | Eq => 3,
            BOr => 4,
            BXor => 5,
            BAnd => 6,
            Shl | Shr => 7,
            Concat => 9,
            Add | Sub => 10,
            Mul | Div | IDiv | Mod => 11,
            Pow => 14,
        }
    }
    pub fn right_assoc(self) -> bool {
        matches!(self, BinOp::Concat | BinOp::Pow)
    }
    pub fn is_bitop(self) -> bool {
        matches!(self, BinOp::BOr | BinOp::BXor | BinOp::BAnd | BinOp::Shl | BinOp::Shr)
    }
}

pub const UNARY_PREC: u8 = 12;

impl UnOp {
    pub fn text(self) -> &'static str {
        match self {
            UnOp::Neg => "-",
            UnOp::Not => "not",
            UnOp::Len => "#",
            UnOp::BNot => "~",
        }
    }
}

#[derive(Clone, Debug, PartialEq, Serialize, Deserialize)]
pub enum StrPiece {
    /// literal characters (never a quote, backslash, CR or LF)
    Plain(String),
    /// the text after the backslash of one escape sequence (`n`, `x41`, `u{7FFFFFFF}`, `065`, `z \n  `, `\n`)
    Esc(String),
}

#[derive(Clone, Debug, PartialEq, Serialize, Deserialize)]
pub enum StrLit {
    Short { quote: char, pieces: Vec<StrPiece> },
    /// `[==[ body ]==]`; `sanitize` raises `level` until the body cannot close the bracket early
    Long { level: u8, body: String },
}

#[derive(Clone, Debug, PartialEq, Serialize, Deserialize)]
pub enum TableItem {
    Pos(Expr),
    Named(String, Expr),
    Keyed(Expr, Expr),
}

#[derive(Clone, Debug, PartialEq, Serialize, Deserialize)]
pub struct Table {
    pub items: Vec<TableItem>,
    /// separator is `;` instead of `,`
    pub semi: bool,
    pub trailing: bool,
}

#[derive(Clone, Debug, PartialEq, Serialize, Deserialize)]
pub enum Args {
    List(Vec<Expr>),
    Str(StrLit),
    Table(Table),
}

#[derive(Clone, Debug, PartialEq, Serialize, Deserialize)]
pub enum Expr {
    Nil,
    True,
    False,
    Vararg,
    /// literal text, valid at the program's level
    Number(String),
    Str(StrLit),
    Name(String),
    Index { obj: Box<Expr>, key: Box<Expr> },
    Field { obj: Box<Expr>, name: String },
    Call { f: Box<Expr>, args: Args },
    Method { obj: Box<Expr>, name: String, args: Args },
    Function(Box<FuncBody>),
    Table(Table),
    Binary(BinOp, Box<Expr>, Box<Expr>),
    Unary(UnOp, Box<Expr>),
    /// explicit parentheses (semantically relevant: `(f())`, `(...)`); the renderer adds the ones precedence needs
    Paren(Box<Expr>),
}

impl Expr {
    /// can stand before `.name`, `[k]`, `:m()` or call arguments without parentheses
    pub fn is_prefix(&self) -> bool {
        matches!(self, Expr::Name(_) | Expr::Index { .. } | Expr::Field { .. } | Expr::Call { .. } | Expr::Method { .. } | Expr::Paren(_))
    }
    pub fn is_call(&self) -> bool {
        matches!(self, Expr::Call { .. } | Expr::Method { .. })
    }
    pub fn is_lvalue(&self) -> bool {
        matches!(self, Expr::Name(_) | Expr::Index { .. } | Expr::Field { .. })
    }
}

// ------------------------------------------------------------------------------------------------
// name pools
// ------------------------------------------------------------------------------------------------

/// names that may be assigned to (plain locals, parameters, globals)
pub const ASSIGNABLE: &[&str] = &["a", "b", "c", "x", "y", "t", "f", "g", "s", "n", "obj", "self", "_", "M", "foo_bar", "x1"];
/// names only ever *declared* read-only (`<const>`, `<close>`, loop variables, named vararg) and never assigned
pub const READONLY: &[&str] = &["i", "j", "k", "v", "K", "MAX", "h", "va"];
/// well-known globals (some are special-cased by the analyzer's parser: require/type/assert/error/setmetatable)
pub const BUILTIN: &[&str] = &["print", "type", "require", "assert", "error", "setmetatable", "string", "math", "pairs", "ipairs", "select"];
pub const FIELDS: &[&str] = &["x", "y", "name", "next", "__index", "len", "n", "new", "get", "value", "end_", "_1"];
pub const LABELS: &[&str] = &["continue", "done", "top", "retry", "next", "out", "L1", "skip"];

pub fn label_name(id: u16) -> String {
    match LABELS.get(id as usize) {
        Some(s) => s.to_string(),
        None => format!("L{}", id),
    }
}

pub fn is_assignable_name(n: &str) -> bool {
    !READONLY.contains(&n)
}

mod fix;
mod render;
mod strat;

pub use fix::{sanitize, simplify};
pub use render::{layout, render, Layout, LayoutMode, Rendered, TokKind};
pub use strat::{program, program_with, Size};

/// rendered valid Lua text for `level` (all layouts, all features); `tier` selects the program size
pub fn valid_lua(level: Level, tier: Tier) -> impl Strategy<Value = String> {
    (program(level, Size::for_tier(tier)), layout()).prop_map(|(p, l)| render(&p, &l).text)
}

/// (program, layout) pairs over all levels
pub fn any_program(size: Size) -> BoxedStrategy<(Program, Layout)> {
    let progs: Vec<BoxedStrategy<Program>> = Level::ALL.iter().map(|l| program(*l, size).boxed()).collect();
    (Union::new(progs), layout()).boxed()
}
