mod engine;
mod gens;
mod ls;
mod oracle;
mod props;
mod tools;

use engine::{RunCtx, Tier};
use std::path::PathBuf;

include!("registry.rs");

macro_rules! dispatch {
    (run, $p:expr, $ctx:expr, $path:expr) => {
        engine::run($p, $ctx)
    };
    (replay, $p:expr, $ctx:expr, $path:expr) => {
        engine::replay($p, $ctx, $path)
    };
    (worker, $p:expr, $ctx:expr, $path:expr) => {
        engine::worker_loop($p)
    };
}

fn main() {
    let args: Vec<String> = std::env::args().skip(1).collect();
    let verif_root = PathBuf::from(std::env::var("VERIF_ROOT").unwrap_or_else(|_| "/verif".to_string()));
    // SAFETY: single-threaded at this point
    unsafe { std::env::set_var("VERIF_ROOT", &verif_root) };
    let seed: u64 = std::env::var("VERIF_SEED").ok().and_then(|s| s.trim().parse::<i64>().ok()).map(|v| v as u64).unwrap_or(1);
    if args.is_empty() {
        eprintln!("usage: vcheck <ID> <quick|thorough> | vcheck <ID> --replay FILE | vcheck --worker <ID>");
        std::process::exit(2);
    }
    let dummy = PathBuf::new();
    if args[0] == "--tool" {
        std::process::exit(tools::main(&args[1..]));
    }
    if args[0] == "--worker" {
        // keep freed memory in the process (one arena, no mmap for big blocks, no trimming): repeated evaluations of
        // equally sized inputs then run on already-touched pages (matters for CPU-time measurements, e.g. C02)
        // SAFETY: called before any other thread exists
        unsafe {
            libc::mallopt(libc::M_ARENA_MAX, 1);
            libc::mallopt(libc::M_MMAP_MAX, 0);
            libc::mallopt(libc::M_TRIM_THRESHOLD, i32::MAX);
            libc::mallopt(libc::M_TOP_PAD, 64 << 20);
        }
        let id = args.get(1).cloned().unwrap_or_default();
        let ctx = RunCtx { tier: Tier::Quick, seed, verif_root };
        let _ = &ctx;
        let code = registry!(worker, id.as_str(), &ctx, &dummy);
        std::process::exit(code);
    }
    let id = args[0].clone();
    if args.get(1).map(|s| s == "--replay").unwrap_or(false) {
        let path = PathBuf::from(args.get(2).cloned().unwrap_or_default());
        let ctx = RunCtx { tier: Tier::Quick, seed, verif_root };
        let code = registry!(replay, id.as_str(), &ctx, &path);
        std::process::exit(code);
    }
    let tier_s = args.get(1).cloned().or_else(|| std::env::var("VERIF_TIER").ok()).unwrap_or_else(|| "quick".into());
    let tier = if tier_s == "thorough" { Tier::Thorough } else { Tier::Quick };
    // SAFETY: single-threaded at this point; read by checks that are deliberately more tolerant in the thorough tier
    unsafe { std::env::set_var("VERIF_TIER_EFFECTIVE", tier.name()) };
    let ctx = RunCtx { tier, seed, verif_root };
    // global watchdog: a hang is INCONCLUSIVE, never a violation
    let limit = std::env::var("VERIF_WATCHDOG_S").ok().and_then(|s| s.parse().ok()).unwrap_or(tier.pick(3600u64, 6 * 3600));
    let wid = id.clone();
    std::thread::spawn(move || {
        std::thread::sleep(std::time::Duration::from_secs(limit));
        println!("INCONCLUSIVE property={} global watchdog after {}s", wid, limit);
        std::process::exit(2);
    });
    let code = registry!(run, id.as_str(), &ctx, &dummy);
    std::process::exit(code);
}
